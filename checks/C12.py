# C12 - the parse tree is exactly the surviving derivation of the selected rules.
#
#   proofs          coq/Properties_C12.v  (model ParseTree.v = parse_tree.hpp: selection, is_leaf< 8 >, the
#                   three state_handler variants as a node-stack machine over hook events, transformers,
#                   parse(); spec ParseTreeSpec.v = call tree of the log, derivation tree; ParseTreeFacts.v)
#   correspondence  harness/c12_harness.hpp + c12_main.cpp: the real parse_tree::parse< G, node, Selector,
#                   Action, Control > (observer control inside parse_tree's control) on generated grammars,
#                   vs driver/c12_driver.ml "model": extracted engine + extracted builder on the table the
#                   compiler dumped; result class, tree and hook log compared            -> ctx.diff
#   oracle          driver/c12_driver.ml "oracle": the extracted SPECIFICATION (call_forest, derivation_tree)
#                   applied to the IMPLEMENTATION's own hook log of the same run and to the log of the same
#                   match with every rule control-enabled; compared with the real tree; tree iff the plain
#                   parse succeeds; positions nested/ordered                              -> ctx.violation
#
# Recorded findings (known_findings.json): SIG_STALE (consequence of the open C08 finding), SIG_LOOK
# (statement level).  Anything else gets its own signature.
import os
import random
import subprocess
import time
from concurrent.futures import ThreadPoolExecutor

import corpus
import vlib

SIG_STALE = "parse_tree: rule's own action throws, caught by try_catch -> stale node left on the builder stack"
SIG_LOOK = "parse_tree: node of a selected rule inside a selected at<> spans beyond its parent"

TRANSFORMS = ["store_content", "remove_content", "fold_one", "discard_empty"]
HSELS = ["h%d" % i for i in range(8)]
ACT_CPP = {"0": "vh::act0", "5": "c12::act_5", "t": "c12::act_t", "mi": "vh::act0", "v": "c12::act_v"}
CTL_CPP = {"0": "c12::ctl_in", "5": "c12::ctl_in", "t": "c12::ctl_in", "mi": "c12::ctl_mi", "v": "c12::ctl_in"}


# --------------------------------------------------------------------------- corpus
def G(rules, root, tags, mix=None, extra=(), acts=("0",), alphabet="abc"):
    g = corpus.Gram(0, rules, root, tags=["c12"] + list(tags), alphabet=alphabet, extra_inputs=extra)
    g.mix = mix
    g.acts = list(acts)
    return g


def c12_family(quick=False):
    out = []
    A, B, C = "one< 'a' >", "one< 'b' >", "one< 'c' >"
    # unselected chains of depth k around a selected rule: is_leaf< 8 > boundary; the chain fails AFTER X matched
    for k in ((8, 9, 12) if quick else (1, 5, 6, 7, 8, 9, 10, 12)):
        for bottom in ("seq< X, %s >" % B, "seq< at< X >, X, %s >" % B, "seq< opt< X >, star< %s, X >, %s >" % (C, B)):
            rules = [("X", A)]
            rules.append(("W%d" % k, bottom))
            for i in range(k - 1, 0, -1):
                wrap = ["seq< W%d >", "sor< W%d, failure >", "seq< opt< failure >, W%d >"][i % 3] % (i + 1)
                rules.append(("W%d" % i, wrap))
            rules.reverse()
            out.append(G(rules, "sor< W1, seq< X, %s >, success >" % C, ["deep", "k%d" % k], mix={"X": "store_content", "G": "store_content"}))
    # the deep part SUCCEEDS and the failure comes at the top of the chain: every unselected rule between the
    # selected match and the failing rule is more than 8 levels away from it only at the top
    for k in ((9, 11) if quick else (7, 8, 9, 10, 11, 13)):
        for top, bottom in (("seq< W2, %s >" % B, "seq< X >"), ("seq< at< W2 >, W2, %s >" % B, "seq< opt< %s >, X >" % C)):
            rules = [("X", A), ("W%d" % k, bottom)]
            for i in range(k - 1, 1, -1):
                wrap = ["seq< W%d >", "sor< failure, W%d >", "seq< W%d, success >"][i % 3] % (i + 1)
                rules.append(("W%d" % i, wrap))
            rules.append(("W1", top))
            rules.reverse()
            out.append(G(rules, "sor< W1, seq< X, %s >, success >" % C, ["deep", "topfail", "k%d" % k], mix={"X": "store_content", "G": "store_content"}))
    for k in ((9, 11) if quick else (7, 8, 9, 10, 12)):
        e = "X"
        for i in range(k):
            e = ["seq< %s >", "sor< failure, %s >", "seq< %s, success >", "plus< %s >"][i % 4] % e
        out.append(G([("X", A)], "sor< seq< %s, %s >, seq< X, %s >, success >" % (e, B, C), ["deep", "topfail", "anon", "k%d" % k], mix={"X": "store_content"}))
    # the same chains built from anonymous (hidden internal::) rules only
    for k in ((8, 9) if quick else (6, 8, 9, 11)):
        e = "seq< X, %s >" % B
        for i in range(k):
            e = ["seq< %s >", "sor< %s, failure >", "opt< %s >", "plus< %s >"][i % 4] % e if i % 4 != 3 else "seq< %s, success >" % e
        out.append(G([("X", A)], "sor< seq< %s, %s >, seq< X, %s > >" % (e, B, C), ["deep", "anon", "k%d" % k], mix={"X": "store_content"}))
    # recursion deeper than 8 at run time
    deep_ok = "a" * 10 + "c" + "b" * 10
    out.append(G([("X", C), ("R", "sor< seq< %s, R, %s >, X >" % (A, B))], "seq< R, eof >", ["recursive"],
                 mix={"X": "store_content", "R": "fold_one"}, extra=[deep_ok, deep_ok[:-1], "a" * 9 + "b" * 9]))
    out.append(G([("X", C), ("Y", "seq< %s, R, %s >" % (A, B)), ("R", "sor< Y, X >")], "must< R, eof >", ["recursive", "raise"],
                 mix={"X": "remove_content", "Y": "discard_empty", "R": "store_content"}, extra=[deep_ok, deep_ok[:-1]]))
    out.append(G([("X", C), ("R", "seq< %s, opt< R >, opt< X > >" % A)], "seq< star< R >, opt< X > >", ["recursive"],
                 mix={"X": "store_content", "R": "discard_empty"}, extra=["a" * 12 + "c" * 3]))
    # look-ahead around selected rules
    out.append(G([("X", A), ("Y", B), ("P", "seq< X, opt< Y > >")], "seq< at< P >, P, not_at< P >, opt< %s > >" % C, ["look"],
                 mix={"X": "store_content", "Y": "store_content", "P": "fold_one"}))
    out.append(G([("X", A), ("Y", B)], "star< not_at< Y, Y >, sor< X, Y >, at< sor< X, Y, eof > > >", ["look"],
                 mix={"X": "store_content", "Y": "remove_content"}))
    out.append(G([("X", A), ("Y", "seq< X, X >")], "seq< at< seq< Y, %s > >, sor< seq< Y, %s >, star< X > > >" % (B, C), ["look"],
                 mix={"X": "store_content", "Y": "store_content"}))
    out.append(G([("X", A)], "at< X >", ["look", "witness"], mix={"X": "store_content", "G": "store_content"}))
    # backtracking after selected rules matched
    out.append(G([("X", A), ("Y", B), ("Z", C)], "sor< seq< X, Y, Z >, seq< X, Y >, star< X, Z >, seq< star< X, Y >, Z > >", ["backtrack"],
                 mix={"X": "store_content", "Y": "fold_one", "Z": "discard_empty", "G": "remove_content"}))
    out.append(G([("X", A), ("P", "seq< X, opt< P > >")], "sor< seq< P, %s >, seq< plus< X >, %s >, until< %s, X > >" % (B, C, C), ["backtrack"],
                 mix={"X": "store_content", "P": "fold_one"}))
    out.append(G([("X", A), ("Y", B)], "seq< rep_min_max< 1, 2, X >, opt< Y, X >, star_partial< Y, X >, opt< rematch< plus< X >, seq< X, X > > > >", ["backtrack"],
                 mix={"X": "store_content", "Y": "discard_empty"}))
    # runs aborted by exceptions; try_catch continuing after a catch
    out.append(G([("X", A), ("Y", B), ("Z", C)], "seq< sor< try_catch_return_false< seq< X, must< Y > > >, seq< X, Z > >, opt< X > >", ["catch", "raise"],
                 mix={"X": "store_content", "Y": "store_content", "Z": "fold_one", "G": "store_content"}, acts=("0", "5", "mi", "v")))
    out.append(G([("X", A), ("Y", B)], "star< sor< try_catch_any_return_false< seq< X, if_must< Y, X > > >, X, Y > >", ["catch", "raise"],
                 mix={"X": "store_content", "Y": "remove_content"}, acts=("0", "5", "mi", "v")))
    out.append(G([("X", A), ("Y", B)], "seq< X, must< sor< Y, seq< X, raise< Y > > > >, opt< X > >", ["raise"],
                 mix={"X": "discard_empty", "Y": "store_content", "G": "fold_one"}, acts=("0", "mi")))
    # vetoing bool actions on named rules (family "v"): a vetoed match is a local failure and must leave no node
    out.append(G([("K", "seq< one< 'a' >, one< 'b' > >"), ("N", "plus< one< 'a', 'b' > >")], "seq< sor< K, N >, opt< K >, star< any > >", ["veto"],
                 mix={"K": "store_content", "N": "store_content", "G": "store_content"}, acts=("0", "v")))
    out.append(G([("K", "plus< one< 'a' > >"), ("N", "seq< K, opt< one< 'b' > > >"), ("M", "sor< seq< N, one< 'c' > >, N, any >")], "star< M >", ["veto"],
                 mix={"K": "store_content", "N": "fold_one", "M": "store_content"}, acts=("0", "v")))
    out.append(G([("K", "seq< one< 'a' >, opt< one< 'b' > > >"), ("N", "seq< at< K >, K >")], "seq< opt< N >, star< sor< K, any > > >", ["veto"],
                 mix={"K": "store_content", "N": "remove_content"}, acts=("0", "v")))
    # must_if control: a rule with a message fails inside try_catch_return_false and the parse continues through another alternative;
    # the rule is (a) unselected with selected descendants, (b) an unselected leaf, (c) selected
    for mixk in ({"A": "store_content", "C": "store_content", "G": "store_content"}, {"G": "store_content", "C": "store_content"},
                 {"M": "store_content", "A": "store_content", "C": "store_content", "G": "store_content"}):
        out.append(G([("A", A), ("C", C), ("M", "seq< A, one< 'b' > >, c12::with_msg")], "sor< try_catch_return_false< seq< M, C > >, seq< A, C >, star< any > >", ["catch", "mustif"],
                     mix=mixk, acts=("0", "mi")))
    out.append(G([("A", A), ("C", C), ("T", "one< 'b' >, c12::with_msg"), ("M", "seq< A, T >")], "seq< opt< try_catch_return_false< M > >, star< sor< A, C, any > > >", ["catch", "mustif"],
                 mix={"A": "store_content", "C": "store_content", "G": "store_content"}, acts=("0", "mi")))
    # the recorded finding: the rule's own action throws, try_catch continues
    out.append(G([("A", A + ", c12::thrower"), ("B", A), ("T", "try_catch_any_return_false< A >")], "sor< T, B >", ["witness", "own_throw"],
                 mix={"A": "store_content", "B": "store_content", "T": "store_content", "G": "store_content"}, acts=("0", "t")))
    out.append(G([("A", B + ", c12::thrower"), ("X", A)], "seq< X, sor< try_catch_std_return_false< seq< X, A > >, star< X > >, opt< A > >", ["own_throw"],
                 mix={"A": "store_content", "X": "store_content"}, acts=("0", "t")))
    return out


def usable(g):
    t = g.cpp()
    if "maybe_loop" in g.tags or (g.tags & {"state", "switch", "atoms"}):
        return False
    return not any(x in t for x in ("state<", "control<", "action<", "vh::st<"))


def named_rules(g):
    return [n for n, _ in g.rules] + ["G"]


def plan(tier, seed):
    rnd = random.Random(seed * 7919 + 12)
    fam = c12_family(tier == "quick")
    sysg = [g for g in corpus.systematic(tier) if usable(g)]
    want = 24 if tier == "quick" else 90
    rnd.shuffle(sysg)
    # keep every template represented
    seen, first, rest = set(), [], []
    for g in sysg:
        key = frozenset(t for t in g.tags if not t.startswith(("ctx:", "basis:")))
        (first if key not in seen else rest).append(g)
        seen.add(key)
    sysg = (first + rest)[:want]
    rg = [g for g in corpus.random_grammars(seed, 8 if tier == "quick" else 30, 0) if usable(g)]
    rg += [g for g in corpus.random_grammars(seed + 7919, 4 if tier == "quick" else 12, 0, classical_only=True) if usable(g)]
    grams = fam + sysg + rg
    for i, g in enumerate(grams):
        g.gid = i
        if not hasattr(g, "mix") or g.mix is None:
            g.mix = {n: rnd.choice(TRANSFORMS) for n in named_rules(g) if rnd.random() < 0.6}
        if not hasattr(g, "acts"):
            g.acts = ["0"]
            if g.tags & {"catch", "raise", "inline"} and i % 2 == 0:
                g.acts.append("5")
            if i % 5 == 0:
                g.acts.append("mi")
            if i % 3 == 1:
                g.acts.append("v")       # vetoing bool actions: a vetoed match must leave no node
        nh = 1 if tier == "quick" else 2
        hs = [HSELS[(i * 3 + j * 5 + seed) % 8] for j in range(nh)]
        base = ["all", "named", "mix"] if ((("c12" in g.tags) and ("deep" not in g.tags)) or tier != "quick" or i % 3 == 0) else ["all", "mix"]
        g.sels = base + sorted(set(hs))
    return grams


def sel_cpp(g, sel):
    if sel == "all":
        return "c12::sel_all"
    if sel == "named":
        return "c12::sel_named"
    if sel == "mix":
        return "g%d::selmix" % g.gid
    return "c12::sel" + sel


def configs(g):
    """(sel, act) pairs run through parse_tree::parse"""
    out = []
    for act in g.acts:
        sels = g.sels if act == "0" else sorted(set([g.sels[0], g.sels[min(2, len(g.sels) - 1)], g.sels[-1]]))
        for s in sels:
            out.append((s, act))
    return out


def write_tu(path, grams):
    out = ['#include "c12_harness.hpp"', "using namespace tao::pegtl;"]
    for g in grams:
        out.append(g.cpp())
        by = {}
        for n, t in sorted(g.mix.items()):
            by.setdefault(t, []).append(n)
        cols = ", ".join("parse_tree::%s::on< %s >" % (t, ", ".join(ns)) for t, ns in sorted(by.items()))
        out.append("namespace g%d { template< typename C12Rule_ > using selmix = parse_tree::selector< C12Rule_%s >; }" % (g.gid, (", " + cols) if cols else ""))
    out.append("void register_all() {")
    for g in grams:
        for s, a in configs(g):
            out.append('  c12::reg< g%d::G, %s, %s, %s >( %d, "%s", "%s" );' % (g.gid, sel_cpp(g, s), ACT_CPP[a], CTL_CPP[a], g.gid, s, a))
        for a in g.acts:
            if a == "0":
                out.append('  c12::reg_plain_all< g%d::G, %s >( %d, "%s" );' % (g.gid, ACT_CPP[a], g.gid, a))
            else:
                out.append('  c12::reg_plain< g%d::G, %s, %s, %s >( %d, "%s" );' % (g.gid, ACT_CPP[a], CTL_CPP[a], "c12::ctl_mi_all" if a == "mi" else "c12::ctl_all", g.gid, a))
        out.append("  c12::reg_rof< g%d::G >( %d );" % (g.gid, g.gid))
    out.append("}")
    with open(path, "w") as fh:
        fh.write("\n".join(out) + "\n")


def hx(s):
    return s.encode("latin1").hex() or "-"


# --------------------------------------------------------------------------- one chunk
CXXFLAGS = ["-std=c++17", "-O0", "-DNDEBUG", "-DTAO_PEGTL_VERIF=1"]


def prepare_common():
    model_exe = vlib.build_ocaml("ExtractC12", "c12_driver.ml", "c12_driver")
    hd = os.path.join(vlib.VERIF, "harness")
    inc_hash = vlib.tree_hash(os.path.join(vlib.REPO, "include"))
    har_hash = vlib.file_hash(os.path.join(hd, "vharness.hpp"), os.path.join(hd, "c12_harness.hpp"), os.path.join(hd, "c12_main.cpp"))
    md = os.path.join(vlib.BUILD, "corpus", "c12main-" + vlib.sha(inc_hash, har_hash, vlib.CXX))
    main_o = os.path.join(md, "c12_main.o")
    try:
        os.utime(md)          # other checks prune the oldest cache directories
    except OSError:
        pass
    if not os.path.exists(main_o):
        os.makedirs(md, exist_ok=True)
        tmp = main_o + ".%d.tmp" % os.getpid()
        rc, out = vlib.sh([vlib.CXX] + CXXFLAGS + ["-I" + os.path.join(vlib.REPO, "include"), "-I" + hd, "-c", os.path.join(hd, "c12_main.cpp"), "-o", tmp], timeout=600)
        if rc != 0:
            raise vlib.BuildError("c12_main.cpp does not compile against the current tree:\n" + out[-3000:])
        os.rename(tmp, main_o)
    return {"model_exe": model_exe, "hd": hd, "inc_hash": inc_hash, "har_hash": har_hash, "main_o": main_o}


def split_line(l):
    parts = l.rstrip("\n").split(" | ")
    return [p.strip() for p in parts]


LOOK_HEADS = {"at", "not_at", "rematch"}


def run_chunk(common, ch, maxlen):
    """returns dict(error, violations[], diffs[], counts)"""
    R = {"error": None, "violations": [], "diffs": [], "n": 0, "trees": 0, "distinct": set(), "samples": [], "aborted": 0, "conf_bad": 0, "hist": {}}
    hd = common["hd"]
    tu_text_key = vlib.sha(*[g.cpp() for g in ch], *[repr(sorted(g.mix.items())) + repr(configs(g)) + repr(g.acts) for g in ch])
    key = vlib.sha(common["inc_hash"], common["har_hash"], tu_text_key, vlib.CXX)
    d = os.path.join(vlib.BUILD, "corpus", "c12-" + key)
    os.makedirs(d, exist_ok=True)
    try:
        os.utime(d)
    except OSError:
        pass
    exe = os.path.join(d, "tu")
    if not os.path.exists(exe):
        tu = os.path.join(d, "tu.cpp")
        write_tu(tu, ch)
        tmp = exe + ".%d.tmp" % os.getpid()
        cmd = [vlib.CXX] + CXXFLAGS + ["-I" + os.path.join(vlib.REPO, "include"), "-I" + hd, tu, common["main_o"], "-o", tmp]
        p = subprocess.run(cmd, stdout=subprocess.PIPE, stderr=subprocess.STDOUT, text=True, errors="replace", timeout=1800)
        if p.returncode != 0 and not os.path.exists(common["main_o"]):
            # the shared object was pruned from the cache by a concurrent check: rebuild it and retry once
            common.update(prepare_common())
            cmd[-3] = common["main_o"]
            p = subprocess.run(cmd, stdout=subprocess.PIPE, stderr=subprocess.STDOUT, text=True, errors="replace", timeout=1800)
        if p.returncode != 0:
            errs = [l for l in p.stdout.split("\n") if "error" in l][:6]
            R["error"] = "compile failed: " + " ;; ".join(errs)[:3000]
            return R
        os.rename(tmp, exe)
    p = subprocess.run([exe, "dump"], stdout=subprocess.PIPE, stderr=subprocess.STDOUT, text=True, errors="replace", timeout=120)
    if p.returncode != 0:
        R["error"] = "dump failed: " + p.stdout[-2000:]
        return R
    vis = vlib.visible_internal_helpers(p.stdout)
    if vis:
        R["error"] = "an implementation helper of namespace internal is visible to the control and would get a tree node (enable_control is true): " + vis[0][:300]
        return R
    if "unknown" in p.stdout:
        bad = [l for l in p.stdout.split("\n") if "unknown" in l][:3]
        R["error"] = "untranslatable rule in table dump: " + " ;; ".join(bad)
        return R
    pid = os.getpid()
    tid = id(ch)
    dump = os.path.join(d, "dump.%d.%d.txt" % (pid, tid))
    cases = os.path.join(d, "cases.%d.%d.txt" % (pid, tid))
    mcases = os.path.join(d, "mcases.%d.%d.txt" % (pid, tid))
    implf = os.path.join(d, "impl.%d.%d.txt" % (pid, tid))
    with open(dump, "w") as fh:
        fh.write(p.stdout)
    table = {}
    roots = {}
    for l in p.stdout.split("\n"):
        if l.startswith("NODE "):
            a, h = l[5:].split("|", 1)
            t = a.split()
            table[int(t[0])] = {"subs": [int(x) for x in t[4:]], "head": h.split()[0]}
        elif l.startswith("REG12 "):
            t = l.split()
            roots[int(t[1])] = int(t[2])
    look = {}
    for g in ch:
        seen, todo, lk = set(), [roots.get(g.gid, -1)], False
        while todo:
            x = todo.pop()
            if x in seen or x not in table:
                continue
            seen.add(x)
            lk = lk or table[x]["head"] in LOOK_HEADS
            todo += table[x]["subs"]
        look[g.gid] = lk
    with open(cases, "w") as fc, open(mcases, "w") as fm:
        for g in ch:
            ins = [hx(s) for s in corpus.inputs_for(g, maxlen)]
            for s, a in configs(g):
                for h in ins:
                    fc.write("%d %s %s %s\n" % (g.gid, s, a, h))
                    fm.write("%d %s %s %s\n" % (g.gid, s, a, h))
            for a in g.acts:
                for h in ins:
                    fc.write("%d - %s %s\n" % (g.gid, a, h))
    try:
        try:
            env = dict(os.environ)
            env["VH_ECHO"] = "1"
            with open(implf, "w") as fo:
                pi = subprocess.run([exe, "run", cases], stdout=fo, stderr=subprocess.PIPE, text=True, errors="replace", timeout=900, env=env)
        except subprocess.TimeoutExpired:
            R["error"] = "implementation run timed out (possible endless loop in the changed library)"
            return R
        if pi.returncode != 0:
            last = [l for l in pi.stderr.split("\n") if l.startswith("CASE ")][-1:] or ["?"]
            R["error"] = "implementation crashed (rc=%d) on %s: %s" % (pi.returncode, last[0], pi.stderr[-300:].replace("\n", " "))
            R["crash_case"] = last[0]
            return R
        pm = subprocess.run([common["model_exe"], "model", dump, mcases, "4000"], stdout=subprocess.PIPE, stderr=subprocess.STDOUT, text=True, errors="replace", timeout=1800)
        if pm.returncode != 0:
            R["error"] = "model driver failed: " + pm.stdout[-2000:]
            return R
        po = subprocess.run([common["model_exe"], "oracle", dump, implf], stdout=subprocess.PIPE, stderr=subprocess.STDOUT, text=True, errors="replace", timeout=1800)
        if po.returncode != 0:
            R["error"] = "oracle driver failed: " + po.stdout[-2000:]
            return R
        impl_pt = {}
        plain = {}
        with open(implf) as fh:
            for l in fh:
                if l.startswith("PT "):
                    f = split_line(l)
                    t = f[0].split()
                    impl_pt[(int(t[1]), t[3], t[4], t[5])] = (f[1], f[2], f[3] if len(f) > 3 else "", t[6])
                elif l.startswith("PL "):
                    f = split_line(l)
                    t = f[0].split()
                    plain[(int(t[1]), t[2], t[3])] = (f[1], f[2])
    finally:
        for f in (dump, cases, mcases, implf):
            try:
                os.remove(f)
            except OSError:
                pass
    model = {}
    for l in pm.stdout.split("\n"):
        if l.startswith("M "):
            f = split_line(l)
            t = f[0].split()
            model[(int(t[1]), t[2], t[3], t[4])] = (f[1], f[2], f[3] if len(f) > 3 else "")
    orc = {}
    for l in po.stdout.split("\n"):
        if l.startswith("O "):
            f = split_line(l)
            t = f[0].split()
            orc[(int(t[1]), t[2], t[3], t[4])] = (f[1], f[2], f[3], f[4])
    gram = {g.gid: g for g in ch}
    if len(impl_pt) != len(model) or len(impl_pt) != len(orc):
        R["error"] = "run count differs impl=%d model=%d oracle=%d" % (len(impl_pt), len(model), len(orc))
        return R

    def rep(k, **kw):
        g = gram[k[0]]
        r = {"grammar": g.cpp(), "mix": g.mix, "selector": k[1], "act": k[2], "input": k[3]}
        r.update(kw)
        return r

    def gdesc(k):
        return "G=%s sel=%s act=%s input=%s" % (gram[k[0]].root, k[1], k[2], k[3])

    for k in sorted(impl_pt, key=lambda k: (len(k[3]), k)):
        res, tree, log1, within = impl_pt[k]
        R["n"] += 1
        g = gram[k[0]]
        pl = plain.get((k[0], k[2], k[3]))
        o = orc[k]
        m = model[k]
        if res == "RUNAWAY" or (pl and "RUNAWAY" in pl):
            continue
        R["hist"][res[0]] = R["hist"].get(res[0], 0) + 1
        # ---- oracle 1: a tree iff the plain parse succeeds (same exception otherwise)
        if pl is None:
            R["diffs"].append(("plain run missing", gdesc(k), None, None))
        else:
            want = {"T": "T", "F": "N"}.get(pl[0], pl[0])
            if res != want:
                R["violations"].append(("tree iff plain parse succeeds: " + gdesc(k),
                                        "parse_tree::parse result %s but plain parse result %s" % (res, pl[0]), rep(k, impl=res, plain=pl[0])))
            if pl[1] != pl[0]:
                R["diffs"].append(("plain parse with every rule control-enabled differs from the plain parse", gdesc(k), pl[1], pl[0]))
        if res.startswith("X"):
            R["aborted"] += 1
        # ---- oracle 2: the tree is the derivation tree of the implementation's own call tree
        if res == "T":
            R["trees"] += 1
            if len(tree) > 8:
                R["distinct"].add((k[0], k[1], tree))
            stale = (o[0] == "UNBALANCED" and k[2] in ("5", "t"))
            if stale:
                # the rule's own action threw (no closing hook), try_catch went on: recorded finding
                R["violations"].append((SIG_STALE, "stale stack entry: parse() returned %s (log has an attempt without closing hook)" % tree[:200], rep(k, impl=tree)))
            else:
                if o[0] != tree:
                    R["violations"].append(("tree differs from the derivation tree of its own hook log: " + gdesc(k),
                                            "impl %s expected %s" % (tree[:300], o[0][:300]), rep(k, impl=tree, expected=o[0])))
                elif o[2] != tree:
                    R["violations"].append(("tree differs from the derivation tree of the complete call tree: " + gdesc(k),
                                            "impl %s expected %s" % (tree[:300], o[2][:300]), rep(k, impl=tree, expected=o[2])))
                if o[1] == "0" or o[3] == "0":
                    R["conf_bad"] += 1
                    R["diffs"].append(("call tree does not conform to the table (an attempt of a rule not reachable through subs_t)", gdesc(k), None, None))
                if within != "1":
                    if look[k[0]]:
                        R["violations"].append((SIG_LOOK, "positions not nested/ordered in %s" % tree[:200], rep(k, impl=tree)))
                    else:
                        R["violations"].append(("children not contained in / ordered within their parent without look-ahead: " + gdesc(k),
                                                "tree %s" % tree[:300], rep(k, impl=tree)))
        # ---- correspondence: model vs implementation
        ires = "X" if res.startswith("X") else res
        if (ires, tree) != (m[0], m[1]):
            R["diffs"].append(("parse_tree result", gdesc(k), "%s %s" % (ires, tree[:300]), "%s %s" % (m[0], m[1][:300])))
        elif k[2] in ("0", "mi"):
            il = ";".join(e for e in log1.split(";") if e[:1] in "SOFU" and e and not e.split(",")[1].startswith("-"))
            ml = ";".join(e for e in m[2].split(";") if e)
            if il != ml:
                R["diffs"].append(("hook log under parse_tree's control", gdesc(k), il[:4000], ml[:4000]))
        if len(R["samples"]) < 2 and res == "T" and len(tree) > 30:
            R["samples"].append({"grammar": g.root, "selector": k[1], "input": k[3], "tree": tree[:160]})
    return R


# --------------------------------------------------------------------------- the check
def run(ctx):
    t0 = time.time()
    ctx.proofs("Properties_C12")
    t1 = time.time()
    common = prepare_common()
    t2 = time.time()
    grams = plan(ctx.tier, ctx.seed)
    maxlen = 4 if ctx.tier == "quick" else 5
    per_tu = 6 if ctx.tier == "quick" else 10
    # big grammars first (longest compile), family always first
    chunks = [grams[i:i + per_tu] for i in range(0, len(grams), per_tu)]
    with ThreadPoolExecutor(max_workers=vlib.JOBS) as ex:
        results = list(ex.map(lambda ch: run_chunk(common, ch, maxlen), chunks))
    n = trees = aborted = 0
    distinct = set()
    samples = []
    hist = {}
    viol = []
    for ch, R in zip(chunks, results):
        if R["error"]:
            ctx.diff("chunk failed: " + R["error"][:1500], {"grammars": [g.root for g in ch][:12]})
            continue
        n += R["n"]
        trees += R["trees"]
        aborted += R["aborted"]
        distinct |= R["distinct"]
        samples += R["samples"]
        for k, v in R["hist"].items():
            hist[k] = hist.get(k, 0) + v
        viol += R["violations"]
        for what, case, impl, model in R["diffs"][:20]:
            ctx.diff(what, case, impl=impl, model=model)
    viol.sort(key=lambda v: (0 if v[0] in (SIG_STALE, SIG_LOOK) else 1, len(v[2]["input"]), len(v[2]["grammar"]), v[0]))
    seen = {}
    for sig, what, rp in viol:
        # one report per failing class: signature without the input for unlisted ones keeps the minimal input
        cls = sig if sig in (SIG_STALE, SIG_LOOK) else sig.split(" input=")[0]
        if cls in seen:
            continue
        seen[cls] = True
        ctx.violation(sig, what, rp)
        if len(seen) > 40:
            break
    ctx.cover(evaluations=n, distinct=len(distinct), validated=n,
              rule="generated grammars (C12 family: unselected chains of depth 1..12 around selected rules, recursion nested deeper than 8, look-ahead around "
                   "selected rules, backtracking after selected matches, must<>/raise<>/try_catch, throwing actions, must_if control; sampled systematic "
                   "head x basis x context corpus; random grammars) x selectors {all, named, per-grammar parse_tree::selector< store/remove/fold_one/"
                   "discard_empty::on<...> >, hash subsets with transformer mixes} x all inputs over {a,b,c} up to length %d plus deep extra inputs; "
                   "distinct = distinct (grammar, selector, non-trivial tree)" % maxlen,
              samples=samples[:6], exhaustive=False, grammars=len(grams), trees=trees, runs_aborted_by_exception=aborted, result_histogram=hist,
              selectors=["all", "named", "mix"] + HSELS,
              wall_proofs_s=round(t1 - t0, 1), wall_model_build_s=round(t2 - t1, 1), wall_corpus_s=round(time.time() - t2, 1))


class _ReplayGram:
    """a single stored grammar (C++ text as written into the replay file)"""
    def __init__(self, rp):
        import re
        self.text = rp["grammar"]
        self.gid = int(re.search(r"namespace g(\d+)", self.text).group(1))
        self.root = re.search(r"struct G : (.*), vh::named \{\};", self.text).group(1)
        self.rules = []
        self.tags = set()
        self.mix = rp.get("mix") or {}
        self.acts = [rp.get("act", "0")]
        self.sels = [rp.get("selector", "all")] * 3
        self.alphabet = ""
        h = rp.get("input", "-")
        self.extra_inputs = [] if h == "-" else [bytes.fromhex(h).decode("latin1")]

    def cpp(self):
        return self.text


def replay(j):
    """bin/check --replay <file>: rebuild the stored grammar against the current tree, rerun the stored
    selector / action family / input and re-judge it with the same oracle"""
    rp = j.get("replay") or {}
    if "grammar" not in rp:
        print("replay file carries no grammar (proof or correspondence broken): rerun `bin/check C12 thorough`")
        return 2
    g = _ReplayGram(rp)
    common = prepare_common()
    R = run_chunk(common, [g], 0)
    if R["error"]:
        print("REPLAY C12 error: " + R["error"][:1500])
        return 1
    bad = [v for v in R["violations"] if v[2]["input"] == rp.get("input", "-") and v[2]["selector"] == rp.get("selector")]
    for sig, what, _ in bad[:5]:
        print("REPLAY C12 violation: %s -- %s" % (sig[:200], what[:400]))
    for d in R["diffs"][:5]:
        print("REPLAY C12 model/implementation difference: %s" % (str(d)[:400]))
    if not bad and not R["diffs"]:
        print("REPLAY C12 ok: no violation on the current tree for selector=%s act=%s input=%s" % (rp.get("selector"), rp.get("act"), rp.get("input")))
        return 0
    return 1
