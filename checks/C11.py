# C11 - grammar analysis never certifies a grammar that can loop without progress.
#
#   proofs          coq/Properties_C11.v  (model Analyze.v = analyze_traits.hpp + analyze.hpp; AnalyzeFacts.v stage A:
#                   a problem-free work() yields the inductive judgement okw; stage B: AnalyzeSound.v / AnalyzeCons.v
#                   (the "consumes" answer is sound) and AnalyzeTerm.v (okw for every entry implies that every run of
#                   Engine.eval terminates: C11_sound, all heads))
#   correspondence  per generated grammar: the compiler dumps the grammar table (harness/vharness.hpp) and the REAL
#                   analysis entry by entry (harness/c11_harness.hpp: a class derived from internal::analyze_cycles<G>
#                   prints m_entries, and for every entry the number of problems work() finds from it and its
#                   consumes flag; plus analyze<G>(-1)).  The extracted model (driver/c11_driver.ml) computes
#                   aentry / analyze_root / problems on the dumped table.  Entries are matched by walking both
#                   structures from the root (real names <-> model ids); kind, arity, per-root problems, consumes and
#                   the total must agree                                                           -> ctx.diff
#                   and the parse verdict letter (T/F/X/runaway) of the real parser vs Engine.eval on every input
#                                                                                                   -> ctx.diff
#   oracle          SPEC side, on the implementation only: if the real analyze<G>(-1) == 0 then the real parser must
#                   terminate on every input over the grammar's alphabet up to length 4 (quick) / 5 (thorough);
#                   termination is observed from outside (a Control whose match() counts every rule entry and the
#                   recursion depth; more than 20000 entries or depth 1500 = runaway)              -> ctx.violation
import concurrent.futures
import os
import random
import subprocess
import tempfile
import threading

import vlib
import corpus

FUEL = 600           # Engine.eval fuel in the driver: far above what a terminating run on <= 5 bytes needs
PER_TU = 16

# --------------------------------------------------------------------------- the ill-formed family
A, B, C = "one< 'a' >", "one< 'b' >", "one< 'c' >"

NULLABLE = [
    ("opt", "opt< %s >" % A), ("success", "success"), ("eof", "eof"), ("at", "at< %s >" % A), ("not_at", "not_at< %s >" % A),
    ("star", "star< %s >" % A), ("seq_opts", "seq< opt< %s >, opt< %s > >" % (A, B)), ("sor_succ", "sor< %s, success >" % A),
    ("sor_succ_first", "sor< success, %s >" % A), ("rep0", "rep< 0, %s >" % A), ("rep_opt", "rep_opt< 2, %s >" % A), ("bol", "bol"),
    ("ite_succ", "if_then_else< %s, %s, success >" % (A, B)), ("ite_then_null", "if_then_else< at< %s >, opt< %s >, %s >" % (A, A, B)),
    ("opt_must", "opt_must< %s, %s >" % (A, B)), ("tc_false", "try_catch_return_false< opt< %s > >" % A),
    ("tc_nested", "try_catch_raise_nested< opt< %s > >" % A),
    ("state", "state< vh::st< 0 >, opt< %s > >" % A), ("action", "action< vh::act1, opt< %s > >" % A), ("control", "control< vh::ctl1, opt< %s > >" % A),
    ("rematch", "rematch< opt< %s >, success >" % A), ("rematch2", "rematch< star< any >, opt< %s > >" % A),
    ("if_apply", "if_apply< opt< %s >, vh::ia< 0 > >" % A), ("disable", "disable< opt< %s > >" % A), ("enable", "enable< opt< %s > >" % A),
    ("bytes0", "bytes< 0 >"), ("rmm02", "rep_min_max< 0, 2, %s >" % A), ("rmm00", "rep_min_max< 0, 0, %s >" % A), ("must_opt", "must< opt< %s > >" % A),
    ("partial", "partial< %s, %s >" % (A, B)), ("minus", "minus< opt< %s >, %s >" % (A, B)), ("apply0", "apply0<>"), ("apply", "apply< vh::ia< 0 > >"),
    ("discard", "discard"), ("require", "require< 1 >"), ("eolf", "eolf"), ("bof", "bof"), ("until_at", "until< at< any > >"),
    ("star_partial", "star_partial< %s, %s >" % (A, B)), ("if_must_null", "if_must< at< %s >, opt< %s > >" % (A, A)),
    ("named_null", "N"),                                               # struct N : opt< one< 'a' > >
    # not nullable: controls (must be problem free and terminate)
    ("CONS_atom", A), ("CONS_seq", "seq< %s, opt< %s > >" % (A, B)), ("CONS_sor", "sor< %s, %s >" % (A, B)), ("CONS_plus", "plus< %s >" % A),
    ("CONS_any", "any"), ("CONS_str", "string< 'a', 'b' >"), ("CONS_ifmust", "if_must< %s, opt< %s > >" % (A, B)), ("CONS_named", "M"),
]
LOOPS = [
    ("star", "star< %s >"), ("star2", "star< %s, %s >"), ("plus", "plus< %s >"), ("plus2", "plus< %s, %s >"),
    ("until2", "until< " + C + ", %s >"), ("until3", "until< " + C + ", %s, %s >"), ("until_null_cond", "until< %s, " + A + " >"),
    ("list", "list< %s, %s >"), ("list_sep", "list< %s, opt< " + B + " > >"), ("list_tail", "list_tail< %s, %s >"), ("list_must", "list_must< %s, %s >"),
    ("rep_min0", "rep_min< 0, %s >"), ("rep_min1", "rep_min< 1, %s >"), ("rep_min2b", "rep_min< 2, %s, %s >"),
    ("star_partial", "star_partial< %s, %s >"), ("star_partial1", "star_partial< %s >"), ("star_must", "star_must< %s, " + B + " >"),
    ("pad", "pad< " + A + ", %s >"), ("pad_opt", "pad_opt< " + A + ", %s >"), ("star_seq_tail", "star< seq< %s, opt< " + B + " > > >"),
    ("star_sor", "star< sor< " + C + ", %s > >"), ("until1", "until< %s >"),
]

# wrappers W[X] that may or may not consume before entering X (left recursion through every combinator)
WRAPS = [
    ("direct", "X"), ("seq1", "seq< X >"), ("seq_opt_first", "seq< opt< " + A + " >, X >"), ("sor_first", "sor< X, " + B + " >"), ("sor_last", "sor< " + B + ", X >"),
    ("sor_at", "sor< at< " + A + " >, X >"), ("sor_eof", "sor< eof, X >"), ("sor_mid", "sor< " + A + ", X, " + B + " >"),
    ("star", "star< X >"), ("plus", "plus< X >"), ("opt", "opt< X >"), ("at", "at< X >"), ("not_at", "not_at< X >"),
    ("until1", "until< X >"), ("until_cond", "until< X, " + A + " >"), ("until_body", "until< " + A + ", X >"), ("until_body2", "until< " + A + ", opt< " + B + " >, X >"),
    ("rep", "rep< 2, X >"), ("rep_min", "rep_min< 1, X >"), ("rep_max", "rep_max< 2, X >"), ("rep_opt", "rep_opt< 2, X >"),
    ("rmm12", "rep_min_max< 1, 2, X >"), ("rmm02", "rep_min_max< 0, 2, X >"), ("rmm00", "rep_min_max< 0, 0, X >"),
    ("ite_cond", "if_then_else< X, " + A + ", " + B + " >"), ("ite_then", "if_then_else< at< " + A + " >, X, " + B + " >"), ("ite_else", "if_then_else< " + A + ", " + B + ", X >"),
    ("if_must_cond", "if_must< X, " + A + " >"), ("if_must_then", "if_must< opt< " + A + " >, X >"), ("if_must_then2", "if_must< at< " + A + " >, opt< " + A + " >, X >"),
    ("if_must_else", "if_must_else< at< " + A + " >, " + A + ", X >"),
    ("opt_must_cond", "opt_must< X, " + A + " >"), ("opt_must_then", "opt_must< opt< " + A + " >, X >"), ("opt_must_then2", "opt_must< at< " + B + " >, success, X >"),
    ("star_must", "star_must< opt< " + A + " >, X >"), ("must", "must< X >"), ("must2", "must< opt< " + A + " >, X >"),
    ("rematch_head", "rematch< X, " + A + " >"), ("rematch_rule", "rematch< plus< any >, X >"), ("rematch_rule2", "rematch< plus< any >, star< any >, X >"),
    ("minus_head", "minus< X, " + A + " >"), ("minus_sub", "minus< plus< any >, X >"),
    ("state", "state< vh::st< 0 >, X >"), ("action", "action< vh::act1, X >"), ("control", "control< vh::ctl1, X >"), ("enable", "enable< X >"), ("disable", "disable< X >"),
    ("tc_false", "try_catch_return_false< X >"), ("tc_any_false", "try_catch_any_return_false< X >"), ("tc_nested", "try_catch_raise_nested< X >"),
    ("tc_std_nested", "try_catch_std_raise_nested< X >"), ("if_apply", "if_apply< X, vh::ia< 0 > >"), ("if_apply_plus", "if_apply< plus< X >, vh::ia< 0 > >"),
    ("partial_first", "partial< X, " + A + " >"), ("partial_second", "partial< opt< " + A + " >, X >"), ("star_partial", "star_partial< X, " + A + " >"),
    ("star_partial2", "star_partial< opt< " + A + " >, X >"),
    ("list_first", "list< X, " + A + " >"), ("list_sep", "list< " + A + ", X >"), ("list_tail", "list_tail< X, " + A + " >"), ("pad_rule", "pad< X, " + A + " >"), ("pad_pad", "pad< " + A + ", X >"),
    ("after_not_at", "seq< not_at< " + A + " >, X >"), ("after_at", "seq< at< " + A + " >, X >"), ("after_eof", "seq< eof, X >"), ("after_bol", "seq< bol, X >"),
    ("after_success", "seq< success, X >"), ("after_rep0", "seq< rep< 0, " + A + " >, X >"), ("after_star", "seq< star< " + A + " >, X >"),
    ("after_opt_must", "seq< opt_must< " + A + ", " + B + " >, X >"), ("after_apply0", "seq< apply0<>, X >"), ("after_discard", "seq< discard, X >"),
    ("after_require", "seq< require< 1 >, X >"), ("after_bytes0", "seq< bytes< 0 >, X >"), ("after_until_at", "seq< until< at< any > >, X >"),
    ("after_rep_opt", "seq< rep_opt< 3, " + A + " >, X >"), ("after_rmm", "seq< rep_min_max< 0, 1, " + A + " >, X >"), ("after_ite", "seq< if_then_else< " + A + ", " + B + ", success >, X >"),
    ("after_tc", "seq< try_catch_return_false< opt< " + A + " > >, X >"), ("after_rematch", "seq< rematch< opt< " + A + " >, success >, X >"),
    ("after_eolf", "seq< eolf, X >"), ("after_bof", "seq< bof, X >"), ("after_if_apply", "seq< if_apply< opt< " + A + " >, vh::ia< 0 > >, X >"),
    ("after_state", "seq< state< vh::st< 0 >, opt< " + A + " > >, X >"), ("after_partial", "seq< partial< " + A + ", " + B + " >, X >"),
    ("after_if_must_null", "seq< if_must< at< " + A + " >, opt< " + A + " > >, X >"),
    # controls: a consuming prefix makes the recursion harmless
    ("CONS_after_atom", "seq< " + A + ", X >"), ("CONS_after_plus", "seq< plus< " + A + " >, X >"), ("CONS_after_ifmust", "seq< if_must< " + A + ", opt< " + B + " > >, X >"),
    ("CONS_after_sor", "seq< sor< " + A + ", " + B + " >, X >"), ("CONS_after_any", "seq< any, opt< X > >"), ("CONS_after_str", "seq< string< 'a', 'b' >, star< X > >"),
    ("CONS_after_rep", "seq< rep< 2, " + A + " >, X >"), ("CONS_after_rmm", "seq< rep_min_max< 1, 2, " + A + " >, X >"), ("CONS_after_until", "seq< until< " + A + " >, X >"),
    ("CONS_after_until2", "seq< until< " + A + ", " + B + " >, X >"), ("CONS_after_rematch", "seq< rematch< plus< " + A + " >, any >, X >"),
]
SHAPES = [
    ("exit_last", ["X"], lambda w: [("X", "sor< seq< %s, %s >, %s >" % (w, A, B))]),
    ("exit_first", ["X"], lambda w: [("X", "sor< %s, seq< %s, %s > >" % (B, w, C))]),
    ("indirect", ["X", "Y"], lambda w: [("Y", w), ("X", "sor< seq< Y, %s >, %s >" % (A, B))]),
    ("bare", ["X"], lambda w: [("X", w)]),
]


def illformed(tier, seed, start_gid):
    out = []
    gid = start_gid

    def add(rules, root, tags):
        nonlocal gid
        out.append(corpus.Gram(gid, rules, root, tags=["illformed"] + tags))
        gid += 1

    named = [("N", "opt< %s >" % A), ("M", "seq< %s, opt< %s > >" % (A, B))]
    for li, (ln, lt) in enumerate(LOOPS):
        ns = lt.count("%s")
        for i, (bn, bt) in enumerate(NULLABLE):
            if tier == "quick" and (i + li) % 3 != 0 and not (ln in ("star", "plus", "until2") and not bn.startswith("CONS")):
                continue
            if ns == 1:
                bodies = [(bt,)]
            else:
                # the nullable body in each slot, the other slot nullable or consuming
                partner = NULLABLE[(i * 7 + 3) % len(NULLABLE)][1]
                bodies = [(bt, partner), (partner, bt)] if tier == "thorough" else [((bt, partner) if i % 2 == 0 else (partner, bt))]
            for bs in bodies:
                body = lt % bs
                rules = [(n, e) for n, e in named if (" " + n + " ") in (" " + body.replace("<", " ").replace(">", " ").replace(",", " ") + " ")]
                add(rules, "seq< %s, opt< %s > >" % (body, C) if (i % 3 == 0) else body, ["loop:" + ln, "body:" + bn])
    for wi, (wn, wt) in enumerate(WRAPS):
        for sn, _names, mk in SHAPES:
            if tier == "quick" and ((sn == "exit_first") or (sn == "indirect" and wi % 2 == 1)):
                continue
            if wn == "direct" and sn != "exit_last" and sn != "exit_first":
                continue                     # struct X : X is not C++
            rules = mk(wt)
            extra = ["cyclic_inline"] if (sn == "bare" and wn in ("if_apply", "until1")) else []
            add(rules, "seq< X, opt< eof > >" if sn != "bare" else "X", ["wrap:" + wn, "shape:" + sn] + extra)
    return out


# --------------------------------------------------------------------------- building and running
def write_tu(path, grams):
    out = ['#include "c11_harness.hpp"', "using namespace tao::pegtl;"]
    for g in grams:
        out.append(g.cpp())
    out.append("void register_all() {")
    for g in grams:
        out.append("  c11::reg< g%d::G >( %d );" % (g.gid, g.gid))
    out.append("}")
    with open(path, "w") as fh:
        fh.write("\n".join(out) + "\n")


def build_main(common):
    main_o = common["main_o"]
    if not os.path.exists(main_o):
        os.makedirs(os.path.dirname(main_o), exist_ok=True)
        tmp = main_o + ".%d.%d.tmp" % (os.getpid(), threading.get_ident())
        rc, out = vlib.sh([vlib.CXX, "-std=c++17", "-O0", "-DTAO_PEGTL_VERIF=1", "-I" + os.path.join(vlib.REPO, "include"), "-I" + common["harness_dir"],
                           "-c", os.path.join(common["harness_dir"], "c11_main.cpp"), "-o", tmp], timeout=900)
        if rc != 0:
            raise vlib.BuildError("c11_main.cpp does not compile against the current tree:\n" + out[-3000:])
        os.rename(tmp, main_o)


def prepare_common():
    """all C11 binaries of one (include tree, harness) pair live in ONE cache directory (the shared cache is pruned by
    directory count); it is touched on every use"""
    harness_dir = os.path.join(vlib.VERIF, "harness")
    inc_hash = vlib.tree_hash(os.path.join(vlib.REPO, "include"))
    har_hash = vlib.file_hash(os.path.join(harness_dir, "vharness.hpp"), os.path.join(harness_dir, "c11_harness.hpp"), os.path.join(harness_dir, "c11_main.cpp"))
    d = os.path.join(vlib.BUILD, "corpus", "c11-" + vlib.sha(inc_hash, har_hash, vlib.CXX))
    os.makedirs(d, exist_ok=True)
    common = {"harness_dir": harness_dir, "inc_hash": inc_hash, "har_hash": har_hash, "dir": d, "main_o": os.path.join(d, "c11_main.o")}
    touch(common)
    build_main(common)
    # bound the size of the directory: keep the most recently used binaries
    exes = sorted((os.path.join(d, f) for f in os.listdir(d) if f.endswith(".exe")), key=lambda p_: os.path.getmtime(p_))
    for p_ in exes[:-700]:
        try:
            os.remove(p_)
        except OSError:
            pass
    return common


def touch(common):
    try:
        os.utime(common["dir"])
    except OSError:
        pass


def compile_tu(common, grams):
    """-> (exe or None, error text)"""
    key = vlib.sha(*[g.cpp() for g in grams])
    d = common["dir"]
    exe = os.path.join(d, "tu-%s.exe" % key)
    if os.path.exists(exe):
        try:
            os.utime(exe)
        except OSError:
            pass
        return exe, ""
    err = ""
    for attempt in range(2):
        os.makedirs(d, exist_ok=True)
        touch(common)
        build_main(common)
        tu = os.path.join(d, "tu-%s.%d.%d.cpp" % (key, os.getpid(), threading.get_ident()))
        write_tu(tu, grams)
        tmp = exe + ".%d.%d.tmp" % (os.getpid(), threading.get_ident())
        cmd = [vlib.CXX, "-std=c++17", "-O0", "-DTAO_PEGTL_VERIF=1", "-I" + os.path.join(vlib.REPO, "include"), "-I" + common["harness_dir"],
               tu, common["main_o"], "-o", tmp]
        try:
            p = subprocess.run(cmd, stdout=subprocess.PIPE, stderr=subprocess.STDOUT, text=True, errors="replace", timeout=1800)
        finally:
            try:
                os.remove(tu)
            except OSError:
                pass
        if p.returncode == 0:
            os.rename(tmp, exe)
            return exe, ""
        err = " ;; ".join([l for l in p.stdout.split("\n") if "error" in l][:4])[:2000]
        environmental = ("no such file" in err.lower()) or ("linker command failed" in err) or ("No space" in err) or not err
        if not environmental:
            break                      # a genuine compile error of the grammar
    return None, err


def hexs(s):
    return s.encode("latin1").hex() or "-"


class Result:
    pass


def process_chunk(common, model_exe, grams, maxlen):
    """compile, dump, run model and implementation for one translation unit; returns list of per-grammar Result"""
    exe, err = compile_tu(common, grams)
    if exe is None:
        if len(grams) == 1:
            r = Result()
            r.g = grams[0]
            r.error = "does not compile: " + err
            r.nocompile = True
            return [r]
        out = []
        for g in grams:
            out += process_chunk(common, model_exe, [g], maxlen)
        return out
    res = []
    by_gid = {}
    for g in grams:
        r = Result()
        r.g = g
        r.error = None
        r.nocompile = False
        r.aent = {}
        r.atot = None
        r.root = None
        res.append(r)
        by_gid[g.gid] = r
    p = subprocess.run([exe, "dump"], stdout=subprocess.PIPE, stderr=subprocess.STDOUT, text=True, errors="replace", timeout=300)
    if p.returncode != 0:
        for r in res:
            r.error = "dump failed rc=%d: %s" % (p.returncode, p.stdout[-500:])
        return res
    nodes = {}
    names = {}
    for l in p.stdout.split("\n"):
        if l.startswith("NODE "):
            a, h = l[5:].split("|", 1)
            t = a.split()
            nodes[int(t[0])] = (t[1], t[2], [int(x) for x in t[4:]], h.strip())
        elif l.startswith("NAME "):
            t = l.split()
            names[int(t[1])] = bytes.fromhex(t[2]).decode("latin1") if t[2] != "-" else ""
        elif l.startswith("REG "):
            t = l.split()
            by_gid[int(t[1])].root = int(t[2])
        elif l.startswith("AENT "):
            head, tail = l.split(" | ")
            t = head.split()
            pr, cons = tail.split()
            nm = bytes.fromhex(t[2]).decode("latin1")
            by_gid[int(t[1])].aent[nm] = {"kind": int(t[3]), "subs": [bytes.fromhex(x).decode("latin1") for x in t[5:]], "pr": int(pr), "cons": int(cons)}
        elif l.startswith("ATOT "):
            t = l.split()
            by_gid[int(t[1])].atot = int(t[2])
    wd = tempfile.mkdtemp(prefix="c11run-")
    try:
        tables = os.path.join(wd, "tables.txt")
        inputs = os.path.join(wd, "inputs.txt")
        with open(tables, "w") as ft, open(inputs, "w") as fi:
            for r in res:
                if r.root is None:
                    r.error = "no REG line"
                    continue
                if any("unknown" in nodes[i][3] for i in nodes):
                    pass
                # sub-table reachable from the root through subs_t, renumbered in discovery order
                order = []
                seen = {}
                stack = [r.root]
                while stack:
                    n = stack.pop()
                    if n in seen:
                        continue
                    seen[n] = len(order)
                    order.append(n)
                    for s in reversed(nodes[n][2]):
                        if s not in seen:
                            stack.append(s)
                r.order = order
                r.renum = seen
                r.names = {seen[n]: names.get(n, "") for n in order}
                bad = [nodes[n][3] for n in order if nodes[n][3].startswith("unknown")]
                if bad:
                    r.error = "untranslatable rule in table dump: " + bad[0]
                    continue
                ft.write("TABLE %d %d\n" % (r.g.gid, seen[r.root]))
                for n in order:
                    en, nm, subs, h = nodes[n]
                    ft.write("NODE %d %s %s %d%s | %s\n" % (seen[n], en, nm, len(subs), "".join(" %d" % seen[s] for s in subs), h))
                    ft.write("ORIG %d %d\n" % (seen[n], n))
                r.table_text = ["%d %s [%s] %s" % (seen[n], nodes[n][3], ",".join(str(seen[s]) for s in nodes[n][2]), names.get(n, "")) for n in order]
                r.inputs = corpus.inputs_for(r.g, maxlen)
                fi.write("%d %s\n" % (r.g.gid, " ".join(hexs(s) for s in r.inputs)))
        pm = subprocess.run([model_exe, tables, inputs, str(FUEL)], stdout=subprocess.PIPE, stderr=subprocess.STDOUT, text=True, errors="replace", timeout=1800)
        if pm.returncode != 0:
            for r in res:
                r.error = r.error or ("model driver failed: " + pm.stdout[-800:])
            return res
        for r in res:
            r.ment = {}
            r.mtot = None
            r.mrun = None
            r.irun = None
        for l in pm.stdout.split("\n"):
            if l.startswith("MENT "):
                head, tail = l.split("|")
                t = head.split()
                s = [int(x) for x in tail.split()]
                by_gid[int(t[1])].ment[(int(t[2]), int(t[3]))] = {"kind": int(t[4]), "pr": int(t[5]), "cons": int(t[6]), "subs": list(zip(s[0::2], s[1::2]))}
            elif l.startswith("MTOT "):
                t = l.split()
                by_gid[int(t[1])].mtot = int(t[2])
                by_gid[int(t[1])].shape = int(t[3])
            elif l.startswith("MRUN "):
                t = l.split()
                by_gid[int(t[1])].mrun = t[2] if len(t) > 2 else ""
        try:
            pi = subprocess.run([exe, "run", inputs], stdout=subprocess.PIPE, stderr=subprocess.PIPE, text=True, errors="replace", timeout=900)
        except subprocess.TimeoutExpired as e:
            done = (e.stdout or b"")
            done = done.decode("latin1") if isinstance(done, bytes) else done
            for l in done.split("\n"):
                if l.startswith("IRUN "):
                    t = l.split()
                    by_gid[int(t[1])].irun = t[2] if len(t) > 2 else ""
            for r in res:
                if r.irun is None and not r.error:
                    r.error = "implementation run timed out (endless loop that the observer cannot see?)"
            return res
        for l in pi.stdout.split("\n"):
            if l.startswith("IRUN "):
                t = l.split()
                by_gid[int(t[1])].irun = t[2] if len(t) > 2 else ""
        if pi.returncode != 0:
            for r in res:
                if r.irun is None and not r.error:
                    r.error = "implementation crashed rc=%d: %s" % (pi.returncode, pi.stderr[-300:])
        return res
    finally:
        for f in os.listdir(wd):
            try:
                os.remove(os.path.join(wd, f))
            except OSError:
                pass
        try:
            os.rmdir(wd)
        except OSError:
            pass


# --------------------------------------------------------------------------- comparing the analyses
def match_entries(r, stats):
    """walk the real entries (names) and the model entries (ids) from the root; returns the list of differences.
    A real name that corresponds to several model ids (the same synthetic type spelled by two rules, or a synthetic
    type that is also a rule of the grammar) shares ONE entry in C++ but not in the model: the number of times a
    problem is met then legitimately differs, and only kind / arity / zero-ness (and consumes where problem free)
    are compared for that grammar."""
    diffs = []
    rootname = "g%d::G" % r.g.gid
    if rootname not in r.aent:
        return ["root entry %s missing in the real analysis" % rootname]
    root_id = (r.renum[r.root], 0)
    amap = {}                       # name -> set of model ids
    todo = [(rootname, root_id)]
    pairs = []
    while todo:
        nm, aid = todo.pop()
        if aid in amap.setdefault(nm, set()):
            continue
        amap[nm].add(aid)
        re_ = r.aent.get(nm)
        me = r.ment.get(aid)
        if re_ is None:
            diffs.append("real analysis has no entry named %s (model id %s)" % (nm, aid))
            continue
        if me is None:
            diffs.append("model has no entry %s for %s" % (aid, nm))
            continue
        if aid[1] == 0 and r.names.get(aid[0], "") != nm:
            diffs.append("model id %s is table node '%s' but the real entry is '%s'" % (aid, r.names.get(aid[0]), nm))
        if re_["kind"] != me["kind"] or len(re_["subs"]) != len(me["subs"]):
            diffs.append("entry %s: real kind=%d subs=%s, model %s kind=%d subs=%s" % (nm, re_["kind"], re_["subs"], aid, me["kind"], me["subs"]))
            continue
        pairs.append((nm, aid, re_, me))
        for sn, sid in zip(re_["subs"], me["subs"]):
            todo.append((sn, sid))
    missing = [nm for nm in r.aent if nm not in amap]
    if missing:
        diffs.append("real entries never reached by the model walk: %s" % missing[:3])
    shared = any(len(ids) > 1 for ids in amap.values())
    stats["analysis_compared_" + ("zeroness_only(shared synthetic names)" if shared else "exactly")] += 1
    for nm, aid, re_, me in pairs:
        if shared:
            if (re_["pr"] == 0) != (me["pr"] == 0) or (re_["pr"] == 0 and re_["cons"] != me["cons"]):
                diffs.append("entry %s as root: real problems=%d consumes=%d, model %s problems=%d consumes=%d (zero-ness)" % (nm, re_["pr"], re_["cons"], aid, me["pr"], me["cons"]))
        elif re_["pr"] != me["pr"] or re_["cons"] != me["cons"]:
            diffs.append("entry %s as root: real problems=%d consumes=%d, model %s problems=%d consumes=%d" % (nm, re_["pr"], re_["cons"], aid, me["pr"], me["cons"]))
    if not shared and not diffs:
        total = sum(r.ment[next(iter(ids))]["pr"] for nm, ids in amap.items())
        if total != r.atot:
            diffs.append("model total over the real entry names %d, analyze<G>(-1)=%s" % (total, r.atot))
    return diffs


def short_cpp(g):
    return " ".join(["%s : %s;" % (n, e) for n, e in g.rules] + ["G : %s" % g.root])


def klass(g):
    t = sorted(x for x in g.tags if x.split(":")[0] in ("loop", "wrap", "shape", "body"))
    if t:
        return "+".join(x for x in t if not x.startswith("body"))
    t = sorted(x for x in g.tags if not x.startswith(("ctx:", "basis:")) and x not in ("classical", "loop", "raise", "catch", "switch", "state", "inline", "maybe_loop"))
    return "+".join(t) or "other"


def gather(ctx):
    tier, seed = ctx.tier, ctx.seed
    rnd = random.Random(seed * 1000003 + 11)
    sysg = corpus.systematic(tier)
    if tier == "thorough":
        loopy = [g for g in sysg if "maybe_loop" in g.tags]
        rest = [g for g in sysg if "maybe_loop" not in g.tags]
        sysg = rnd.sample(loopy, min(len(loopy), 300)) + rnd.sample(rest, min(len(rest), 300))
    else:
        # quick: every loop construct of the shared systematic corpus, every other one of the rest
        loopy = [g for g in sysg if g.tags & {"loop", "maybe_loop"}]
        rest = [g for g in sysg if not (g.tags & {"loop", "maybe_loop"})]
        sysg = loopy + rest[::2]
    grams = list(sysg)
    nr = 40 if tier == "quick" else 100
    grams += corpus.random_grammars(seed, nr, start_gid=200000)
    grams += corpus.random_grammars(seed + 7919, nr // 2, start_gid=300000, classical_only=True)
    grams += illformed(tier, seed, 400000)
    # every atom / decoder class once (their traits: any vs opt), with their own byte alphabets
    grams += corpus.atom_grammars(tier, start_gid=500000)
    # gids must be unique (namespace names)
    seen = set()
    out = []
    for g in grams:
        if g.gid in seen:
            continue
        seen.add(g.gid)
        out.append(g)
    return out


def no_traits(g):
    txt = g.cpp()
    return "strict<" in txt.replace(" ", "")


def contrib_stage(ctx):
    """contrib side of C11: rules whose analyze_traits live in contrib headers and that have no head in the engine model
    (raw_string with content rules, rep_one_min_max, predicates, integer rules) and rule names containing the delimiters of
    the compiler's pretty-function text (the analysis keys its table by demangled name).  Implementation-side oracle only:
    harness/c11_contrib.cpp prints, per grammar, the real analyze< G >( -1 ) count and whether any run of the real parser
    exceeded the rule-attempt budget; 0 problems + a runaway is a violation."""
    for cxx in ("g++", "clang++"):
        _contrib_run(ctx, cxx)


def _contrib_run(ctx, cxx):
    exe = vlib.build_cpp([os.path.join(vlib.VERIF, "harness", "c11_contrib.cpp")], "c11_contrib_" + cxx, flags=["-O1"], compiler=cxx)
    rc, out = vlib.sh([exe, "3" if ctx.tier == "quick" else "4"], timeout=1800)
    rows = [l.split() for l in out.split("\n") if l.startswith("G ")]
    if rc != 0 or len(rows) < 36:
        ctx.diff("c11_contrib harness (%s) failed to run to completion" % cxx, out[-1500:])
        return
    cases = 0
    flagged = loops = 0
    for _, k, problems, runaway, first, n in rows:
        cases += int(n)
        flagged += int(problems) > 0
        loops += int(runaway)
        if int(problems) == 0 and int(runaway) == 1:
            ctx.violation("contrib grammar %s: analyze reports 0 problems but the parser runs away" % k,
                          "contrib grammar #%s (harness/c11_contrib.cpp, %s): analyze< G >( -1 ) = 0 but parsing input %s exceeds 100000 rule attempts (loop without progress)" % (k, cxx, first),
                          {"stage": "contrib", "grammar_no": int(k), "input_hex": first, "compiler": cxx})
    ctx.cover(evaluations=cases, distinct=len(rows), validated=0, contrib_grammars=len(rows), contrib_flagged=flagged, contrib_looping=loops)


def run(ctx):
    import time
    t0 = time.time()
    ctx.proofs("Properties_C11")
    t1 = time.time()
    model_exe = vlib.build_ocaml("ExtractC11", "c11_driver.ml", "c11_driver")
    common = prepare_common()
    maxlen = 4 if ctx.tier == "quick" else 5
    grams = gather(ctx)
    excluded = [g for g in grams if no_traits(g)]
    grams = [g for g in grams if not no_traits(g)]
    chunks = [grams[i:i + PER_TU] for i in range(0, len(grams), PER_TU)]
    results = []
    with concurrent.futures.ThreadPoolExecutor(max_workers=vlib.JOBS) as ex:
        futs = [ex.submit(process_chunk, common, model_exe, ch, maxlen) for ch in chunks]
        # probe: analyze<> has no trait for strict / star_strict (expected not to compile)
        probe = corpus.Gram(999999, [], "strict< %s, %s >" % (A, B), tags=["probe"])
        pf = ex.submit(compile_tu, common, [probe])
        for f in futs:
            results += f.result()
        probe_exe, _ = pf.result()
    if probe_exe is None:
        ctx.note("analyze<> does not compile for strict<> / star_strict<> (no analyze_traits specialisation): %d corpus grammars using them are excluded; "
                 "the model gives these heads a self-referential entry, i.e. always a problem" % len(excluded))
    else:
        ctx.note("analyze<> now compiles for strict<>: the exclusion of strict/star_strict grammars (%d) should be revisited" % len(excluded))

    ctx.note("phases: proofs %.0fs, build+run corpus %.0fs" % (t1 - t0, time.time() - t1))
    n_eval = 0
    n_runs = 0
    stats = {"grammars": 0, "certified": 0, "certified_all_terminate": 0, "flagged": 0, "flagged_and_loops": 0, "flagged_no_loop_found": 0,
             "nocompile": 0, "errors": 0, "entries_compared": 0, "model_all_roots_zero_iff_real_zero": 0,
             "analysis_compared_exactly": 0, "analysis_compared_zeroness_only(shared synthetic names)": 0}
    viol = {}
    ndiff = 0
    samples = []
    by_class = {}
    for r in results:
        g = r.g
        if getattr(r, "nocompile", False):
            if "cyclic_inline" in g.tags:
                # X : if_apply< X, ... > / X : until< X >: the trait inherits from analyze_traits< X, X::rule_t > of the incomplete X
                stats["expected_nocompile"] = stats.get("expected_nocompile", 0) + 1
                continue
            stats["nocompile"] += 1
            if "illformed" in g.tags or ndiff < 5:
                ctx.diff("grammar does not compile with analyze<> against the current tree", short_cpp(g), impl=r.error[:600], model=None)
                ndiff += 1
            continue
        if r.error:
            stats["errors"] += 1
            ctx.diff("harness/driver failure", short_cpp(g), impl=r.error[:600], model=None)
            ndiff += 1
            continue
        stats["grammars"] += 1
        # ---- correspondence 1: the analysis
        ds = match_entries(r, stats)
        stats["entries_compared"] += len(r.aent)
        real_sum = sum(e["pr"] for e in r.aent.values())
        if r.atot != real_sum:
            ds.append("analyze<G>(-1)=%s but the per-root problems of the real entries add up to %d" % (r.atot, real_sum))
        if getattr(r, "shape", 0) != 1:
            ds.append("the dumped table does not satisfy table_shape_ok (hypothesis of C11_sound on the must<...> helper of if_must nodes)")
        if (r.mtot == 0) != (r.atot == 0):
            ds.append("model problems(table)=%s (every table entry as root) vs analyze<G>(-1)=%s: zero-ness differs" % (r.mtot, r.atot))
        else:
            stats["model_all_roots_zero_iff_real_zero"] += 1
        for d in ds[:3]:
            if ndiff < 40:
                ctx.diff("analysis differs: " + d, short_cpp(g), impl="analyze=%s" % r.atot, model="problems=%s table=%s" % (r.mtot, r.table_text))
            ndiff += 1
        # ---- correspondence 2: verdict letters
        if r.irun is None or r.mrun is None or len(r.irun) != len(r.inputs) or len(r.mrun) != len(r.inputs):
            ctx.diff("run output missing or of the wrong length", short_cpp(g), impl=str(r.irun)[:80], model=str(r.mrun)[:80])
            ndiff += 1
            continue
        n_runs += len(r.inputs)
        n_eval += len(r.inputs)
        # 'B' = the real run exhausted its invocation budget without a cycle (expensive backtracking): not judged
        nb = r.irun.count("B")
        if nb:
            stats["budget_runs_not_judged"] = stats.get("budget_runs_not_judged", 0) + nb
        if any(a != b and a != "B" for a, b in zip(r.irun, r.mrun)) or len(r.irun) != len(r.mrun):
            k = next(i for i in range(min(len(r.irun), len(r.mrun))) if r.irun[i] != r.mrun[i] and r.irun[i] != "B") if len(r.irun) == len(r.mrun) else 0
            if ndiff < 40:
                ctx.diff("parse verdict differs (T/F/X/R=no termination)", "%s input=%s" % (short_cpp(g), hexs(r.inputs[k])), impl=r.irun[k], model=r.mrun[k])
            ndiff += 1
        # the theorem's own consequence on the model side
        if r.mtot == 0 and "R" in r.mrun:
            ctx.diff("model contradicts C11_sound: problems(table)=0 but Engine.eval runs out of fuel", short_cpp(g), impl=None, model=r.mrun[:60])
            ndiff += 1
        # ---- oracle on the implementation
        loops = [i for i, ch in enumerate(r.irun) if ch == "R"]
        cl = klass(g)
        st = by_class.setdefault(cl, [0, 0, 0, 0])
        if r.atot == 0:
            stats["certified"] += 1
            st[0] += 1
            if loops:
                w = r.inputs[loops[0]]
                key = cl
                cand = (len(short_cpp(g)), len(w), short_cpp(g), w, g, len(loops))
                if key not in viol or cand[:2] < viol[key][:2]:
                    viol[key] = cand
                viol.setdefault("#count", 0)
                viol["#count"] += 1
            else:
                stats["certified_all_terminate"] += 1
        else:
            stats["flagged"] += 1
            st[1] += 1
            if loops:
                stats["flagged_and_loops"] += 1
                st[2] += 1
            else:
                stats["flagged_no_loop_found"] += 1
                st[3] += 1
        if len(samples) < 6 and ("illformed" in g.tags) and (len(samples) % 2 == (0 if r.atot == 0 else 1)):
            samples.append("%s | analyze=%d model=%d | verdicts=%s" % (short_cpp(g), r.atot, r.mtot, r.irun[:16]))
    nviol = viol.pop("#count", 0)
    for key, (_, _, txt, w, g, nloop) in sorted(viol.items()):
        sig = "analyze()==0 but the parser does not terminate [%s]: %s on input '%s'" % (key, txt, w)
        ctx.violation(sig, "analyze< G >( -1 ) returned 0 problems, yet parse< G >() on '%s' runs into a cycle without progress (a rule re-entered at the same "
                           "input position while an invocation of it there is still open, or more than 1000 starts of one sub-rule at one position by one invocation) "
                           "(%d of the explored inputs loop; %d certified grammars loop in this run)" % (w, nloop, nviol),
                      {"grammar_cpp": g.cpp(), "gid": g.gid, "input_hex": hexs(w), "alphabet": g.alphabet, "maxlen": maxlen,
                       "how": "bin/check --replay <this file>: compiles the grammar with harness/c11_harness.hpp against the tree, prints analyze<G>(-1) and the verdict on the input"})
    if ctx.tier == "thorough":
        # independent re-check of the compiled proofs by the stand-alone checker (DESIGN 3.3)
        with vlib.Lock("coq"):
            rc, out = vlib.sh(["timeout", "900", "coqchk", "-silent", "-o", "-Q", ".", "PegtlV", "PegtlV.Properties_C11"], cwd=vlib.COQ, timeout=960)
        tail = " ".join(out.split())[-400:]
        if rc != 0 or "Axioms: <none>" not in " ".join(out.split()):
            ctx.diff("coqchk -o PegtlV.Properties_C11 did not report an axiom-free, fully checked context", tail)
        else:
            ctx.note("coqchk -o PegtlV.Properties_C11: Axioms: <none>")
    ctx.note("C11 statistics: %s" % ", ".join("%s=%d" % kv for kv in sorted(stats.items())))
    ctx.note("converse (not required by the property): of %d grammars with problems reported, %d do loop on some explored input, %d show no loop up to length %d "
             "(analysis is conservative there, e.g. sor alternatives that can never be reached, predicates)" % (stats["flagged"], stats["flagged_and_loops"], stats["flagged_no_loop_found"], maxlen))
    contrib_stage(ctx)
    ctx.cover(evaluations=n_eval, distinct=stats["grammars"], validated=n_runs,
              rule="grammars: corpus.systematic (incl. maybe_loop, no well-formedness filter%s) + corpus.random_grammars + the C11 ill-formed family "
                   "(every nullable body x every loop head; left recursion through every combinator x 4 recursion shapes); inputs: all strings over {a,b,c} up to length %d; "
                   "per grammar the real analysis is compared entry by entry with the model and the verdict of every input with Engine.eval; "
                   "non-trivial = grammar" % (", sampled" if ctx.tier == "thorough" else "", maxlen),
              samples=samples, exhaustive=False, c11=stats,
              c11_by_class={k: {"certified": v[0], "flagged": v[1], "flagged_and_loops": v[2], "flagged_no_loop": v[3]} for k, v in sorted(by_class.items())})


def replay(j):
    if (j.get("replay") or {}).get("stage") == "contrib":
        class _C:
            tier = "quick"

            def __init__(self):
                self.v = []

            def violation(self, sig, what, rp):
                self.v.append(what)

            def diff(self, *a, **k):
                self.v.append(str(a)[:300])

            def cover(self, **k):
                pass
        c = _C()
        contrib_stage(c)
        for w in c.v[:5]:
            print("REPLAY:", w)
        print("REPLAY: VIOLATION reproduced" if c.v else "REPLAY: not reproduced on the current tree")
        return 1 if c.v else 0
    r = j["replay"]
    common = prepare_common()
    with tempfile.TemporaryDirectory(prefix="c11-replay-") as wd:
        tu = os.path.join(wd, "tu.cpp")
        with open(tu, "w") as fh:
            fh.write('#include "c11_harness.hpp"\nusing namespace tao::pegtl;\n%s\nvoid register_all() { c11::reg< g%d::G >( %d ); }\n' % (r["grammar_cpp"], r["gid"], r["gid"]))
        exe = os.path.join(wd, "tu")
        rc, out = vlib.sh([vlib.CXX, "-std=c++17", "-O0", "-DTAO_PEGTL_VERIF=1", "-I" + os.path.join(vlib.REPO, "include"), "-I" + common["harness_dir"], tu, common["main_o"], "-o", exe], timeout=600)
        if rc != 0:
            print("replay grammar does not compile:\n" + out[-2000:])
            return 2
        rc, out = vlib.sh([exe, "dump"], timeout=120)
        atot = [l for l in out.split("\n") if l.startswith("ATOT ")]
        inp = os.path.join(wd, "in.txt")
        with open(inp, "w") as fh:
            fh.write("%d %s\n" % (r["gid"], r["input_hex"]))
        rc, out2 = vlib.sh([exe, "run", inp], timeout=120)
        irun = [l for l in out2.split("\n") if l.startswith("IRUN ")]
    print(r["grammar_cpp"])
    print(" ".join(atot), "|", " ".join(irun))
    bad = bool(atot) and atot[0].split()[2] == "0" and bool(irun) and irun[0].split()[2:] == ["R"]
    print("  analyze==0 and the run does not terminate -> VIOLATED" if bad else "  ok")
    return 1 if bad else 0
