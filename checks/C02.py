import engine_check
import shipped
import Contrib


def run(ctx):
    engine_check.run(ctx, "C02")
    # contrib rules and shipped grammars (integer, raw_string, rep_one_min_max, predicates, http chunk rules, json, uri, ...):
    # oracle on the implementation's own invocation trace (no engine-model comparison in this stage)
    shipped.run_oracle(ctx, "C02")
    # rep_one_min_max, predicates, http chunk rules: Coq models (Contrib.v, Properties_Contrib.v) + model/implementation correspondence + oracle
    Contrib.stage(ctx)


def replay(j):
    if (j.get("replay") or {}).get("stage") == "contrib":
        return Contrib.replay(j)
    return engine_check.replay(j)
