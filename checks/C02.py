import engine_check
def run(ctx):
    engine_check.run(ctx, "C02")
