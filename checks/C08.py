import os
import re

import engine_check
import vlib


def contrib_stage(ctx):
    """contrib side of C08: the protocol as observed through the library's own facilities (state_control, coverage,
    remove_first_state / shuffle_states) over plain and must_if controls, vetoing actions, must<> / must_if exceptions
    and a parse started from a destructor during stack unwinding.  harness/c08_contrib.cpp checks the Dyck structure,
    truthfulness, start = success + failure + unwind for every rule and branch, coverage counters = observer log."""
    exe = vlib.build_cpp([os.path.join(vlib.VERIF, "harness", "c08_contrib.cpp")], "c08_contrib", flags=["-O1"], compiler="g++")
    rc, out = vlib.sh([exe, "4" if ctx.tier == "quick" else "6"], timeout=1800)
    done = [l for l in out.split("\n") if l.startswith("DONE ")]
    if rc != 0 or not done:
        ctx.violation("c08 contrib harness crashed (rc=%d)" % rc, "the contrib observer run ended abnormally: " + out[-600:], {"stage": "contrib", "output": out[-3000:]})
        return
    n_cases, n_events, n_viol = [int(x) for x in done[0].split()[1:4]]
    seen = set()
    for l in out.split("\n"):
        if not l.startswith("VIOL "):
            continue
        t = l.split(" ", 5)
        kind, g, cfg, hx = t[1], t[2], t[3], t[4]
        detail = t[5] if len(t) > 5 else ""
        sig = "contrib %s %s: %s" % (kind, g, re.sub(r"\d+", "#", detail.split(":")[0])[:120])
        if sig in seen:
            continue
        seen.add(sig)
        ctx.violation(sig, "%s (%s, %s, input %s): %s" % (kind, g, cfg, hx, detail[:600]),
                      {"stage": "contrib", "grammar": g, "cfg": cfg, "input_hex": hx, "detail": detail[:2000],
                       "how": "harness/c08_contrib.cpp (state_control observer + coverage on the real library)"})
    ctx.cover(evaluations=n_cases, distinct=n_cases // 4, validated=0, contrib_cases=n_cases, contrib_hook_events=n_events, contrib_violations=n_viol,
              rule="contrib stage: 7 grammars x 4 configurations (plain / vetoing / must_if control) x all inputs over {a,b,c} up to length %d through state_control + coverage, each also from a destructor during unwinding" % (4 if ctx.tier == "quick" else 6))


def run(ctx):
    engine_check.run(ctx, "C08")
    contrib_stage(ctx)


def replay(j):
    if (j.get("replay") or {}).get("stage") == "contrib":
        class _C:
            def __init__(self):
                self.v = []
                self.tier = "quick"

            def violation(self, sig, what, rp):
                self.v.append(what)

            def cover(self, **k):
                pass
        c = _C()
        contrib_stage(c)
        for w in c.v[:10]:
            print("REPLAY:", w[:400])
        print("REPLAY: VIOLATION reproduced" if c.v else "REPLAY: not reproduced on the current tree")
        return 1 if c.v else 0
    return engine_check.replay(j)
