import engine_check
def run(ctx):
    engine_check.run(ctx, "C13")

def replay(j):
    return engine_check.replay(j)
