import os

import engine_check
import vlib


def states_stage(ctx):
    """change_states< S... > / change_action_and_states< A, S... > with 1-2 new and 0-3 outer states: not in the shared
    harness / engine model (one state only there).  Implementation-side oracle: harness/c13_states.cpp logs which states
    every action and every success() is handed and compares with the scoping rule (new states inside, outer states
    outside, success( in, new..., outer... ) once iff matched and actions enabled, nothing left alive)."""
    exe = vlib.build_cpp([os.path.join(vlib.VERIF, "harness", "c13_states.cpp")], "c13_states", flags=["-O0"])
    rc, out = vlib.sh([exe], timeout=300)
    done = [l for l in out.split("\n") if l.startswith("DONE ")]
    if rc != 0 or not done:
        ctx.violation("c13 states stage crashed", "harness/c13_states.cpp ended abnormally: " + out[-400:], {"stage": "states"})
        return
    n = int(done[0].split()[1])
    seen = set()
    for l in [l for l in out.split("\n") if l.startswith("BAD ")]:
        what, _, where = l[4:].partition(" | ")
        fam = where.split(" input ")[0]
        sig = "multi-state switch: %s [%s]" % (what.split(":")[0][:80], " ".join(fam.split()[:1]))
        if sig in seen:
            continue
        seen.add(sig)
        ctx.violation(sig, l[4:600], {"stage": "states", "line": l[:1500]})
    ctx.cover(evaluations=n, distinct=n, validated=0, multi_state_cases=n)


def run(ctx):
    engine_check.run(ctx, "C13")
    states_stage(ctx)
    vlib.bad_done_stage(ctx, "c13_single.cpp", "c13_single", "singular state switch", "single")


def replay(j):
    if (j.get("replay") or {}).get("mode") == "single":
        return vlib.replay_bad_done("C13", "c13_single.cpp", "c13_single", "singular state switch", "single")
    if (j.get("replay") or {}).get("stage") == "states":
        class _C:
            def __init__(self):
                self.v = []

            def violation(self, sig, what, rp):
                self.v.append(what)

            def cover(self, **k):
                pass
        c = _C()
        states_stage(c)
        for w in c.v[:6]:
            print("REPLAY:", w[:300])
        print("REPLAY: VIOLATION reproduced" if c.v else "REPLAY: not reproduced on the current tree")
        return 1 if c.v else 0
    return engine_check.replay(j)
