# C16 — raw_string implements Lua long-bracket literals.
#
#   proofs        Properties_C16.v (model RawString.v against the declarative spec RawStringSpec.v)
#   tie           the extracted model (driver/c16_driver.ml) and the real raw_string<...>
#                 (harness/c16_impl.cpp, compiled against the tree under test) enumerate the same
#                 inputs and must print identical lines                      -> ctx.diff
#   oracle        long_bracket_oracle() below, written from the property text (opening bracket of
#                 level n, first closing bracket of level n, one line ending stripped per eol
#                 policy, content rules applied step by step), applied to the IMPLEMENTATION's
#                 lines; it never looks at the model                          -> ctx.violation
import os
import random
import itertools
import multiprocessing

import vlib

# ---- the rule instantiations; must be the table of c16_impl.cpp / c16_driver.ml -----------------
#         Open  Marker Close contents
RULES = [("[", "=", "]", None),
         ("<", "-", ">", None),
         ("(", "*", ")", None),
         ("|", "=", "|", None),       # Close == Open
         ("[", "=", "]", "any"),
         ("[", "=", "]", "not_one<'x'>"),
         ("[", "=", "]", "bytes<2>"),
         ("{", "#", "#", None)]       # Close == Marker
EOL_NAMES = ["lf", "cr", "crlf", "lf_crlf", "cr_crlf"]
LINE_ENDINGS = {0: [b"\n"], 1: [b"\r"], 2: [b"\r\n"], 3: [b"\n", b"\r\n"], 4: [b"\r", b"\r\n"]}
MODES = ["required,action", "required,no-action", "optional,action", "optional,no-action"]
TRIVIAL = "0,0,1,1,-"


def rule_name(r):
    o, m, c, k = RULES[r]
    return "raw_string<'%s','%s','%s'%s>" % (o, m, c, (", " + k) if k else "")


def alphabet_of(r):
    o, m, c, _ = RULES[r]
    a = []
    for ch in (o, m, c, "\n", "\r", "x"):
        if ch not in a:
            a.append(ch)
    return "".join(a).encode("latin-1")


# ---- the oracle: the property text, nothing else ---------------------------------------------------
def long_bracket_oracle(r, eol, s):
    """None, or (content_begin, content_end, total) in bytes from the start of s."""
    o, m, c, contents = RULES[r]
    o, m, c = ord(o), ord(m), ord(c)
    # an opening long bracket of some level n: Open Marker^n Open
    if len(s) < 2 or s[0] != o:
        return None
    n = 0
    while 1 + n < len(s) and s[1 + n] == m:
        n += 1
    if 1 + n >= len(s) or s[1 + n] != o:
        return None
    a = n + 2
    close = bytes([c]) + bytes([m]) * n + bytes([c])
    if contents is None:
        # the shortest following text that ends with the first closing long bracket of level n
        j = s.find(close, a)
        if j < 0:
            return None
        text = s[a:j]
        # ... without a single line ending that immediately follows the opening bracket
        k = max([len(le) for le in LINE_ENDINGS[eol] if text.startswith(le)] + [0])
        return (a + k, j, j + n + 2)
    # with content sub-rules: after the (optional) line ending the content is matched by the
    # content rule, step by step, until a closing bracket of level n is seen at a step boundary
    k = max([len(le) for le in LINE_ENDINGS[eol] if s.startswith(le, a)] + [0])
    p = a + k
    while True:
        if s.startswith(close, p):
            return (a + k, p, p + n + 2)
        if contents == "any":
            if p >= len(s):
                return None
            p += 1
        elif contents == "not_one<'x'>":
            if p >= len(s) or s[p] == ord("x"):
                return None
            p += 1
        elif contents == "bytes<2>":
            if p + 2 > len(s):
                return None
            p += 2
        else:
            raise ValueError(contents)


def prefix_cannot_open(r, prefix):
    """no string starting with this prefix (alphabet indices) starts with an opening bracket.
    In every alphabet Open has index 0 and Marker index 1."""
    if len(prefix) >= 1 and prefix[0] != 0:
        return True
    if len(prefix) >= 2 and prefix[1] not in (0, 1):
        return True
    return False


# ---- judging one implementation line -----------------------------------------------------------
def parse_result(tok):
    if tok in ("OOB", "OOF"):
        return None
    ok, byte, line, col, content = tok.split(",")
    span = None
    calls = 0
    if content != "-":
        body = content[1:]
        calls = 1
        if "x" in body:
            body, k = body.split("x")
            calls = int(k)
        b, e = body.split("-")
        span = (int(b.split(".")[0]), int(e.split(".")[0]))
    return int(ok), int(byte), int(line), int(col), span, calls


def judge_line(r, eol, s, toks):
    """compare the four mode results of the implementation with the oracle; yields (class, text, mode)"""
    exp = long_bracket_oracle(r, eol, s)
    for mode, tok in enumerate(toks):
        res = parse_result(tok)
        if res is None:
            yield ("unparsable", "mode %s: %s" % (MODES[mode], tok), mode)
            continue
        ok, byte, line, col, span, calls = res
        required = mode < 2
        action = mode in (0, 2)
        if exp is None:
            if ok:
                yield ("matches where the specification has no long-bracket literal", "mode %s: matched %d bytes" % (MODES[mode], byte), mode)
            elif required and (byte, line, col) != (0, 1, 1):
                yield ("local failure leaves input consumed", "mode %s: failed at byte %d (line %d, column %d)" % (MODES[mode], byte, line, col), mode)
            if calls:
                yield ("content action fired without a literal", "mode %s: %s" % (MODES[mode], tok), mode)
        else:
            cb, ce, total = exp
            if not ok:
                yield ("fails on a well-formed long-bracket literal", "mode %s: expected %d bytes consumed" % (MODES[mode], total), mode)
                continue
            if byte != total:
                yield ("consumes the wrong number of bytes", "mode %s: consumed %d, the literal has %d" % (MODES[mode], byte, total), mode)
            if action:
                if calls != 1:
                    yield ("content action does not fire exactly once", "mode %s: %d calls" % (MODES[mode], calls), mode)
                elif span != (cb, ce):
                    yield ("content span differs from the text between the brackets", "mode %s: action saw [%d,%d), specification says [%d,%d)" % (MODES[mode], span[0], span[1], cb, ce), mode)
            elif calls:
                yield ("content action fired although no action is attached", "mode %s" % MODES[mode], mode)


def show(s):
    return repr(s.decode("latin-1"))


class Findings:
    """keeps the minimal witness per (rule, class)"""
    def __init__(self):
        self.best = {}
        self.count = 0

    def add(self, r, eol, s, cls, text, mode=0):
        self.count += 1
        key = (r, cls)
        cand = (len(s), s, eol, mode, text)
        if key not in self.best or cand < self.best[key]:
            self.best[key] = cand

    def merge(self, other):
        self.count += other.count
        for key, cand in other.best.items():
            if key not in self.best or cand < self.best[key]:
                self.best[key] = cand


# ---- one shard: run both programs, compare, judge ------------------------------------------------
def run_prog(exe, args, timeout=3000):
    rc, out = vlib.sh([exe] + list(args), timeout=timeout)
    return rc, out


def check_lines(impl_out, fixed_rule=None):
    """oracle over every printed implementation line; returns (Findings, n_lines, ok_keys, total, trivial)"""
    f = Findings()
    ok_keys = set()
    n = 0
    total = trivial = None
    for line in impl_out.split("\n"):
        if not line:
            continue
        if line.startswith("total="):
            a, b = line.split()
            total = int(a.split("=")[1])
            trivial = int(b.split("=")[1])
            continue
        toks = line.split(" ")
        if len(toks) != 7 or not toks[2].startswith("h"):
            f.add(fixed_rule if fixed_rule is not None else 0, 0, b"", "unparsable", line[:200])
            continue
        r, eol = int(toks[0]), int(toks[1])
        s = bytes.fromhex(toks[2][1:])
        n += 1
        for cls, text, mode in judge_line(r, eol, s, toks[3:]):
            f.add(r, eol, s, cls, text, mode)
        if toks[3].startswith("1,"):
            ok_keys.add((r, eol, s))
    return f, n, ok_keys, total, trivial


def shard_worker(job):
    impl, model, r, maxlen, prefix = job
    args = ["enum", str(r), str(maxlen), prefix]
    rc_i, out_i = run_prog(impl, args)
    rc_m, out_m = run_prog(model, args)
    res = {"job": (r, maxlen, prefix), "diff": None, "findings": Findings(), "lines": 0, "total": 0, "trivial": 0, "positives": 0, "crash": None}
    if rc_i != 0:
        res["crash"] = "implementation exited with %d: %s" % (rc_i, out_i[-400:])
        return res
    if rc_m != 0:
        res["diff"] = ("model driver exited with %d" % rc_m, out_m[-400:], "")
        return res
    if out_i != out_m:
        li, lm = out_i.split("\n"), out_m.split("\n")
        for a, b in itertools.zip_longest(li, lm, fillvalue="<missing>"):
            if a != b:
                res["diff"] = ("first differing line", a, b)
                break
    f, n, ok_keys, total, trivial = check_lines(out_i, fixed_rule=r)
    res["lines"] = n
    res["total"] = total or 0
    res["trivial"] = trivial or 0
    # the other direction: every literal the specification accepts must be among the printed
    # (non-trivial) lines as a success.  Enumerate the shard in Python unless no string in it
    # can start with an opening bracket.
    pre = [] if prefix == "-" else [int(ch) for ch in prefix]
    alpha = alphabet_of(r)
    expected_total = 0
    if all(d < len(alpha) for d in pre):
        for ln in range(len(pre), maxlen + 1):
            expected_total += 5 * len(alpha) ** (ln - len(pre))
    if total is not None and total != expected_total:
        f.add(r, 0, b"", "enumeration incomplete", "implementation ran %s cases, the shard has %d" % (total, expected_total))
    positives = 0
    if all(d < len(alpha) for d in pre) and not prefix_cannot_open(r, pre):
        head = bytes(alpha[d] for d in pre)
        for ln in range(len(pre), maxlen + 1):
            for tail in itertools.product(alpha, repeat=ln - len(pre)):
                s = head + bytes(tail)
                for eol in range(5):
                    if long_bracket_oracle(r, eol, s) is not None:
                        positives += 1
                        if (r, eol, s) not in ok_keys:
                            for cls, text, mode in judge_line(r, eol, s, [TRIVIAL] * 4):
                                f.add(r, eol, s, cls, text + " (implementation: fails without consuming)", mode)
                                break
    res["positives"] = positives
    res["findings"] = f
    return res


def make_jobs(impl, model, maxlen):
    jobs = []
    for r in range(len(RULES)):
        k = len(alphabet_of(r))
        jobs.append((impl, model, r, min(maxlen, 1), "-"))
        if maxlen < 2:
            continue
        for a in range(k):
            for b in range(k):
                p = "%d%d" % (a, b)
                if maxlen >= 8 and a == 0 and b in (0, 1):
                    jobs.append((impl, model, r, 2, p))
                    for d in range(k):
                        jobs.append((impl, model, r, maxlen, p + str(d)))
                else:
                    jobs.append((impl, model, r, maxlen, p))
    # heavy shards first
    jobs.sort(key=lambda j: (0 if j[4][:1] == "0" else 1, j[2], j[4]))
    return jobs


# ---- seeded random inputs -------------------------------------------------------------------------
def random_inputs(seed, count):
    rng = random.Random(seed * 7919 + 16)
    out = []
    for i in range(count):
        o, m, c, _ = RULES[rng.randrange(len(RULES))]
        alpha = [o, m, c, "\n", "\r", "x", "x", "a"]
        def rnd(nmax):
            return "".join(rng.choice(alpha) for _ in range(rng.randrange(nmax + 1)))
        n = rng.choice([0, 0, 1, 1, 2, 3, 4, 4, 5])
        kind = rng.randrange(10)
        s = o + m * n + o
        if kind < 6:      # well-formed, with decoys of other levels and line endings in front
            lead = rng.choice(["", "", "\n", "\r", "\r\n", "\n\n", "\r\r\n", "\n\r"])
            body = ""
            for _ in range(rng.randrange(4)):
                n2 = rng.choice([x for x in range(6) if x != n])
                body += rnd(6) + rng.choice([c + m * n2 + c, o + m * n2 + o, c + m * n, m * n + c, ""])
            s += lead + body + rnd(6) + c + m * n + c + rnd(8)
        elif kind < 8:    # no matching close
            n2 = rng.choice([x for x in range(6) if x != n])
            s += rnd(20) + c + m * n2 + c + rnd(5)
        else:             # anything
            s = rnd(40)
        s = s[:64]
        out.append(s.encode("latin-1"))
    return out


# ---- replay of a recorded violation on the current tree -------------------------------------------
def replay(j):
    rp = j.get("replay", {})
    if rp.get("mode") == "buf":
        return vlib.replay_bad_done("C16", "c16_buf.cpp", "c16_buf", "literal delivered in pieces differs from memory_input", "buf")
    if "input_hex" not in rp:
        print("C16 replay: nothing to run for this record (%s)" % j.get("kind"))
        return 2
    src = os.path.join(vlib.VERIF, "harness", "c16_impl.cpp")
    impl = vlib.build_cpp([src], "c16_impl", flags=["-O1"])
    os.makedirs(os.path.join(vlib.BUILD, "c16"), exist_ok=True)
    path = os.path.join(vlib.BUILD, "c16", "replay-%d.txt" % os.getpid())
    with open(path, "w") as fh:
        fh.write(rp["input_hex"] + "\n")
    rc, out = run_prog(impl, ["file", path])
    os.remove(path)
    f, n, ok_keys, total, trivial = check_lines(out)
    bad = [(k, v) for k, v in f.best.items() if k[0] == rp.get("rule_index", k[0])]
    for line in out.split("\n"):
        if line.startswith("%d " % rp.get("rule_index", 0)):
            print(line)
    for (r, cls), (ln, s, eol, mode, text) in bad:
        print("VIOLATION property=C16 %s on %s with eol::%s: %s; %s" % (rule_name(r), show(s), EOL_NAMES[eol], cls, text))
    if not bad:
        print("C16 replay: the implementation now agrees with the specification on this input")
    return 1 if bad else 0


# ---- the check ----------------------------------------------------------------------------------
def run(ctx):
    ctx.proofs("Properties_C16")
    vlib.bad_done_stage(ctx, "c16_buf.cpp", "c16_buf", "literal delivered in pieces differs from memory_input", "buf")
    model = vlib.build_ocaml("ExtractC16", "c16_driver.ml", "c16_driver")
    src = os.path.join(vlib.VERIF, "harness", "c16_impl.cpp")
    impl = vlib.build_cpp([src], "c16_impl", flags=["-O1"])

    thorough = ctx.tier == "thorough"
    maxlen = 9 if thorough else 7
    findings = Findings()
    n_cases = n_lines = n_positive = 0
    samples = []

    def report_crash(what, detail):
        ctx.violation("raw_string harness crashed: " + what, detail, {"what": what})

    # 1. exhaustive part
    jobs = make_jobs(impl, model, maxlen)
    with multiprocessing.Pool(min(vlib.JOBS, 16)) as pool:
        for res in pool.imap_unordered(shard_worker, jobs, chunksize=1):
            r, ml, prefix = res["job"]
            if res["crash"]:
                report_crash("%s shard %s" % (rule_name(r), prefix), res["crash"])
                continue
            if res["diff"]:
                what, a, b = res["diff"]
                ctx.diff("raw_string model and implementation disagree (%s)" % what,
                         {"rule": rule_name(r), "maxlen": ml, "prefix": prefix}, impl=a, model=b)
            findings.merge(res["findings"])
            n_cases += res["total"] * 4
            n_lines += res["lines"]
            n_positive += res["positives"]

    # 2. seeded random inputs up to 64 bytes, every rule x eol x mode, every line printed
    rnd = random_inputs(ctx.seed, 6000 if thorough else 1500)
    os.makedirs(os.path.join(vlib.BUILD, "c16"), exist_ok=True)
    path = os.path.join(vlib.BUILD, "c16", "random-%d-%s-%d.txt" % (ctx.seed, ctx.tier, os.getpid()))
    with open(path, "w") as fh:
        for s in rnd:
            fh.write(s.hex() + "\n")
    rc_i, out_i = run_prog(impl, ["file", path])
    rc_m, out_m = run_prog(model, ["file", path])
    if rc_i != 0:
        report_crash("random inputs", "exit %d: %s" % (rc_i, out_i[-400:]))
    elif rc_m != 0:
        ctx.diff("model driver failed on the random inputs", {"file": path}, impl="", model=out_m[-400:])
    else:
        if out_i != out_m:
            for a, b in itertools.zip_longest(out_i.split("\n"), out_m.split("\n"), fillvalue="<missing>"):
                if a != b:
                    ctx.diff("raw_string model and implementation disagree (random inputs)", {"seed": ctx.seed}, impl=a, model=b)
                    break
        f, n, ok_keys, total, trivial = check_lines(out_i)
        findings.merge(f)
        n_cases += (total or 0) * 4
        n_lines += n
        n_positive += len(ok_keys)
        if total != len(rnd) * len(RULES) * 5:
            ctx.diff("random part incomplete", {"expected": len(rnd) * len(RULES) * 5, "got": total})
        for line in out_i.split("\n"):
            if line.startswith("0 3 ") and " 1," in line and len(samples) < 4 and len(line) < 200:
                samples.append(line)
    try:
        os.remove(path)
    except OSError:
        pass

    # 3. thorough: the same sources under ASan/UBSan on exact-size heap buffers (C16: "never reads
    #    outside the input" is a theorem about the model; this is its tie)
    if thorough:
        try:
            asan = vlib.build_cpp([src], "c16_impl_asan", flags=["-O1", "-g", "-fsanitize=address,undefined", "-fno-sanitize-recover=all"])
        except vlib.BuildError as e:
            asan = None
            ctx.note("ASan build unavailable: " + str(e)[-200:])
        if asan:
            with open(path, "w") as fh:
                for s in rnd[:1500]:
                    fh.write(s.hex() + "\n")
            runs = [["file", path]] + [["enum", str(r), "6", "-"] for r in range(len(RULES))]
            for args in runs:
                rc_a, out_a = run_prog(asan, args)
                rc_p, out_p = run_prog(impl, args)
                if rc_a != 0 or "Sanitizer" in out_a or "runtime error" in out_a:
                    tail = [l for l in out_a.split("\n") if "Sanitizer" in l or "runtime error" in l or "READ of size" in l][:3]
                    ctx.violation("raw_string reads outside the input or has undefined behaviour (%s)" % " ".join(args[:2]),
                                  "sanitizer report: " + " | ".join(tail), {"args": args, "exit": rc_a})
                elif out_a != out_p:
                    ctx.diff("sanitizer build prints different results", {"args": args})
            try:
                os.remove(path)
            except OSError:
                pass

    # 4. verdicts of the oracle
    for (r, cls), (ln, s, eol, mode, text) in sorted(findings.best.items(), key=lambda kv: (kv[1][0], kv[0])):
        sig = "%s %s: %s" % (rule_name(r), cls, show(s))
        ctx.violation(sig, "%s on input %s with eol::%s: %s; %s" % (rule_name(r), show(s), EOL_NAMES[eol], cls, text),
                      {"rule": rule_name(r), "rule_index": r, "eol": EOL_NAMES[eol], "input_hex": s.hex(), "class": cls, "detail": text,
                       "replay": "c16_impl file <file with the hex line>"})

    ctx.cover(evaluations=n_cases, distinct=n_positive, validated=n_cases,
              rule=("all strings of length <= %d over {Open, Marker, Close, LF, CR, 'x'} for %d raw_string instantiations "
                    "(3 bracket alphabets, Close==Open, Close==Marker, contents any / not_one<'x'> / bytes<2>) x 5 eol policies x "
                    "{required, optional} x {action on content, none}, plus %d seeded strings up to 64 bytes with levels 0-5 and decoy "
                    "brackets; non-trivial = (input, eol) pairs the specification accepts as a literal" % (maxlen, len(RULES), len(rnd))),
              samples=samples, exhaustive=True, printed_lines=n_lines, oracle_findings=findings.count)
