"""C18 — depth and byte limits are enforced exactly and leave no residue (engine pipeline; lib/props_c18.py)."""
import collections

import engine_check


TRANSIENT = ("linker command failed", "Killed", "Cannot allocate memory", "No space left", "timed out", "Resource temporarily unavailable")


class Recorder:
    """stands in for the framework context during one pass: records what the shared pipeline reports, so that a pass
    hit by a transient build problem of the machine (linker killed under memory pressure, ...) can be repeated
    (compiled chunks are cached) instead of being reported as a broken correspondence"""
    def __init__(self, ctx):
        self._ctx = ctx
        self.tier, self.seed = ctx.tier, ctx.seed
        self.diffs, self.calls, self.transient = [], [], 0

    _proofs = {}

    def proofs(self, modname):
        if modname not in Recorder._proofs:
            Recorder._proofs[modname] = self._ctx.proofs(modname)
        return Recorder._proofs[modname]

    def diff(self, what, case, impl=None, model=None):
        err = str(case.get("error", "")) if isinstance(case, dict) else ""
        if what.startswith("corpus chunk could not be built") and any(t in err for t in TRANSIENT):
            self.transient += 1
        self.diffs.append(what)
        self.calls.append(("diff", (what, case), {"impl": impl, "model": model}))

    def violation(self, signature, what, replay):
        self.calls.append(("violation", (signature, what, replay), {}))

    def note(self, s):
        self.calls.append(("note", (s,), {}))

    def cover(self, **kw):
        self.calls.append(("cover", (), kw))

    def forward(self):
        for name, a, kw in self.calls:
            getattr(self._ctx, name)(*a, **kw)


def run(ctx):
    for attempt in range(3):
        rec = Recorder(ctx)
        engine_check.run(rec, "C18")
        if rec.transient == 0 or attempt == 2:
            break
    if attempt:
        ctx.note("pass repeated %d time(s) after a transient build failure of corpus chunks" % attempt)
    rec.forward()
    ctx.cover(rule="C18 families (lib/props_c18.py; the shared corpus is not used): recursive bracket grammars with limit_depth N in {0,1,2,5} on one or "
                   "two mutually recursive rules (plain, siblings, backtracking, exceptions caught around and inside, throwing/vetoing actions, guard on a "
                   "control-disabled rule, under disable<>) on all bracket strings up to length 6/8 plus nestings 0..N+3; rules of 12 kinds (greedy, look-ahead, "
                   "straddling string, failing, raising, eof inside, until, throwing/vetoing action inside, rematch) guarded by limit_bytes / check_bytes N in 0..5 "
                   "placed behind star< one< 'c' > > so that they start at every offset of every input c^o w (w over {a,b}, o + |w| <= 5 quick / 6..8 thorough), "
                   "in the shapes opt< L > / try_catch< L > / star< L, ... > followed by star< any >, eof; nested byte limits; depth + byte limits; every case "
                   "run guarded (act9) and unguarded (act10) under control families with full invocation trace, rewind required/optional, apply action/nothing")


def replay(j):
    """rebuild the stored grammar, run the stored configuration TOGETHER WITH its unguarded twin on the stored
    input, its prefixes and the one-byte-tail variants the oracle pairs it with, re-evaluate the oracle"""
    import corpus
    import engine_run as er
    import props_c18 as pc
    rp = j.get("replay") or {}
    if "gram" not in rp:
        return engine_check.replay(j)
    gd = rp["gram"]
    g = corpus.Gram(gd["gid"], [tuple(x) for x in gd["rules"]], gd["root"], tags=gd["tags"], surface=gd["surface"], pre=gd.get("pre", ""))
    inp = bytes.fromhex(rp["input_hex"]).decode("latin1") if rp["input_hex"] != "-" else ""
    g.alphabet = ""
    g.maxlen = 0
    extra = []
    for k in range(len(inp) + 1):
        for t in ("", "a", "b"):
            if inp[:k] + t not in extra:
                extra.append(inp[:k] + t)
    if inp not in extra:
        extra.append(inp)
    g.extra_inputs = [x for x in extra if x]
    c = er.cfg_of_name(rp["cfg"])
    cfgs = [c, ("act10" if c[0] == "act9" else "act9",) + tuple(c[1:])]
    K = er.run_chunk(er.prepare_common(), [g], {g.gid: cfgs}, 0, label="replay")
    if K.error:
        print("REPLAY: could not run:", K.error)
        return 1
    bad = 0
    cnt = collections.Counter()
    import engine_props as ep
    for ri, rm in zip(K.impl, K.model):
        if ri["input"] != rp["input_hex"] or ri["cfg"] != rp["cfg"]:
            continue
        print("impl :", ri["res"], ri["cur"], ri["events"][:400])
        print("model:", rm["res"], rm["cur"], rm["events"][:400])
        if ep.projection(ri, "C18") != ep.projection(rm, "C18", K=K, model=True):
            print("REPLAY: model and implementation differ on the C18 projection")
            bad += 1
        for msg in pc.oracle(K, ri, cnt):
            print("REPLAY: VIOLATION reproduced:", msg)
            bad += 1
    if not bad:
        print("REPLAY: not reproduced on the current tree")
    return 1 if bad else 0
