# C09 - convenience and contrib rules equal their documented expansions.
#
# 1. (Coq side) lib/props_c09.generate_alias_tables(ctx) -> lib/c09_alias.py: regenerates coq/gen/AliasC09_gen.v and
#    AliasC09Claims_gen.v from the compiler's table dump and the reference text before the proofs are built.
# 2. proofs: Properties_C09.v (engine model of the rule = engine model / PEG formalism of the documented expansion).
# 3. engine pipeline on the TWIN corpus (lib/props_c09.py): every rule of the property x behaviour-basis arguments x
#    bounds 0..4 x calling contexts, each next to the C++ text of its DOCUMENTED expansion (tools/doc_equiv.py reads the
#    [Equivalent] clauses of doc/Rule-Reference.md); model vs implementation on result / exception / consumed bytes
#    (ctx.diff), oracle = rule vs documented expansion vs PEG formalism of the expansion (ctx.violation).
# 4. contrib rep_one_min_max (no head in the engine model): harness/c09_impl.cpp runs it next to
#    rep_min_max< Min, Max, one< C > > through the real parse().
import Contrib
import engine_check
import props_c09
import vlib


def run(ctx):
    gen = getattr(props_c09, "generate_alias_tables", None)
    if gen is not None:
        try:
            gen(ctx)
        except vlib.BuildError as e:
            ctx.diff("alias schemas could not be dumped against the current tree", {"error": str(e)[-3000:]})
    engine_check.run(ctx, "C09")
    props_c09.run_romm(ctx)
    props_c09.probe_rep_opt0(ctx)
    # rep_one_min_max = rep_min_max< Min, Max, one< C > > as a theorem (Properties_Contrib.v) + correspondence incl. buffer inputs
    Contrib.stage(ctx)


def replay(j):
    if (j.get("replay") or {}).get("stage") == "contrib":
        return Contrib.replay(j)
    return props_c09.replay(j)
